//! Running one simulated process: engine E1 (the real `hdwallet` binary under
//! the LD_PRELOAD SimOS shim) or engine E2 (`threadsim`, the `new` command
//! under the seeded scheduler). A `Cmd` is plain data — everything the process
//! will see is spelled out in it — and an `Outcome` is everything it did.

use crate::e2proto::*;
use crate::prng::Fnv;
use serde::{Deserialize, Serialize};
use std::collections::HashMap;
use std::io::Read;
use std::path::{Path, PathBuf};
use std::process::{Command, Stdio};
use std::sync::{Mutex, OnceLock};
use std::time::{Duration, Instant};

pub mod hexbytes {
    use serde::{Deserialize, Deserializer, Serializer};
    pub fn serialize<S: Serializer>(v: &Vec<u8>, s: S) -> Result<S::Ok, S::Error> {
        s.serialize_str(&hex::encode(v))
    }
    pub fn deserialize<'de, D: Deserializer<'de>>(d: D) -> Result<Vec<u8>, D::Error> {
        let s = String::deserialize(d)?;
        hex::decode(s).map_err(serde::de::Error::custom)
    }
}

pub mod hexbytes_opt {
    use serde::{Deserialize, Deserializer, Serializer};
    pub fn serialize<S: Serializer>(v: &Option<Vec<u8>>, s: S) -> Result<S::Ok, S::Error> {
        match v {
            Some(v) => s.serialize_some(&hex::encode(v)),
            None => s.serialize_none(),
        }
    }
    pub fn deserialize<'de, D: Deserializer<'de>>(d: D) -> Result<Option<Vec<u8>>, D::Error> {
        let s = Option::<String>::deserialize(d)?;
        match s {
            Some(s) => hex::decode(s).map(Some).map_err(serde::de::Error::custom),
            None => Ok(None),
        }
    }
}

#[derive(Clone, Debug, Serialize, Deserialize, PartialEq, Eq)]
pub enum IoStep {
    /// serve / accept at most n bytes
    Chunk(u32),
    /// fail the call with EINTR, transferring nothing
    Eintr,
    /// fail the call with this errno (hard error)
    Err(i32),
}

impl IoStep {
    fn plan_line(&self, tag: char) -> String {
        match self {
            IoStep::Chunk(n) => format!("{tag} chunk {n}\n"),
            IoStep::Eintr => format!("{tag} eintr\n"),
            IoStep::Err(e) => format!("{tag} err {e}\n"),
        }
    }
    pub fn is_hard(&self) -> bool {
        matches!(self, IoStep::Err(_))
    }
}

#[derive(Clone, Debug, Serialize, Deserialize, PartialEq, Eq)]
pub struct NamedFile {
    pub name: String,
    #[serde(with = "hexbytes")]
    pub data: Vec<u8>,
}

#[derive(Clone, Debug, Serialize, Deserialize, PartialEq, Eq)]
pub struct E2Params {
    pub sched: SchedSpec,
    pub max_steps: u32,
    pub generous_bound: u32,
    #[serde(default)]
    pub generous_requests: u32,
    pub lib_tasks: u32,
    pub lib_len: u32,
    pub lib_calls: u32,
}

#[derive(Clone, Debug, Default, Serialize, Deserialize, PartialEq, Eq)]
pub struct Cmd {
    /// arguments after the program name; for E2 argv[0] must be "new"
    pub argv: Vec<String>,
    pub env: Vec<(String, String)>,
    #[serde(with = "hexbytes_opt")]
    pub stdin: Option<Vec<u8>>,
    pub files: Vec<NamedFile>,
    pub entropy: Vec<EntResp>,
    pub tail: Option<EntResp>,
    /// delivery plan for read(0)
    pub rplan: Vec<IoStep>,
    /// acceptance plan for write(1)
    pub wplan: Vec<IoStep>,
    /// delivery plan for reads of input files
    pub fplan: Vec<IoStep>,
    /// Some => engine E2
    pub e2: Option<E2Params>,
    /// deliver `stdin` through a pipe (fully written and closed before the process starts)
    /// instead of a regular file: st_size is 0, /dev/stdin is not seekable
    #[serde(default)]
    pub stdin_pipe: bool,
    /// with `e2` params: run the REAL binary under the preload shim's thread scheduler
    /// (engine E3) instead of the shuttle executor
    #[serde(default)]
    pub e3: bool,
    /// run the library probe (real threads calling Mnemonic::random) instead of hdwallet
    #[serde(default)]
    pub libprobe: bool,
}

#[derive(Clone, Debug, Serialize, Deserialize, PartialEq, Eq)]
pub enum Status {
    Exit(i32),
    Signal(i32),
    Timeout,
}

impl Status {
    pub fn code(&self) -> Option<i32> {
        match self {
            Status::Exit(c) => Some(*c),
            _ => None,
        }
    }
    pub fn ok(&self) -> bool {
        *self == Status::Exit(0)
    }
    /// An "ordinary error": what main.rs returns for Err (255) or clap for bad usage (2).
    pub fn ordinary_error(&self) -> bool {
        matches!(self, Status::Exit(255) | Status::Exit(2))
    }
}

#[derive(Clone, Debug, Serialize, Deserialize, PartialEq, Eq)]
pub struct IoEvent {
    pub tag: char,
    pub k: u32,
    pub count: u64,
    pub ret: i64,
    pub errno: i32,
}

#[derive(Clone, Debug, Serialize, Deserialize)]
pub struct Outcome {
    pub status: Status,
    #[serde(with = "hexbytes")]
    pub stdout: Vec<u8>,
    pub stderr: String,
    pub ent: Vec<EntEvent>,
    pub io: Vec<IoEvent>,
    pub e2: Option<E2History>,
    #[serde(skip)]
    pub wall_us: u64,
}

impl Outcome {
    pub fn stdout_str(&self) -> String {
        String::from_utf8_lossy(&self.stdout).into_owned()
    }

    /// Hash of everything observable and every simulator decision of the run.
    /// Two executions of the same `Cmd` must give the same value.
    pub fn event_hash(&self) -> u64 {
        let mut h = Fnv::new();
        h.write(format!("{:?}", self.status).as_bytes());
        if self.status == Status::Timeout {
            // killed by the watchdog at a wall-clock instant: how far the logs got is not
            // a simulator decision, so it is not part of the event identity
            return h.finish();
        }
        h.write(&self.stdout);
        for e in &self.ent {
            h.write(
                format!(
                    "{}|{}|{}|{}|{}|{}|{}",
                    e.seq, e.task, e.len, e.ok, e.errno, e.bytes, e.src
                )
                .as_bytes(),
            );
        }
        for e in &self.io {
            h.write(format!("{}|{}|{}|{}|{}", e.tag, e.k, e.count, e.ret, e.errno).as_bytes());
        }
        if let Some(h2) = &self.e2 {
            h.write(h2.end.as_bytes());
            h.write(h2.sched_hash.as_bytes());
            h.write_u64(h2.steps as u64);
            for p in &h2.panics {
                h.write(format!("{}|{}|{}", p.task, p.msg, p.loc).as_bytes());
            }
            for c in &h2.choices {
                h.write_u64(*c as u64);
            }
        }
        h.finish()
    }

    /// Panic site parsed from stderr (E1) or the history (E2): (location, message).
    pub fn panic_site(&self) -> Option<(String, String)> {
        if let Some(h) = &self.e2 {
            if let Some(p) = h.panics.first() {
                return Some((p.loc.clone(), p.msg.clone()));
            }
        }
        // "thread 'main' panicked at src/hdk/path.rs:18:57:\nmessage"
        let s = &self.stderr;
        let i = s.find("panicked at ")?;
        let rest = &s[i + "panicked at ".len()..];
        let (loc, tail) = rest.split_once('\n').unwrap_or((rest, ""));
        let loc = loc.trim_end_matches(':').to_string();
        let msg = tail.lines().next().unwrap_or("").to_string();
        Some((loc, msg))
    }
}

/// Stable identity of a panic: source file (no line numbers, no absolute
/// prefix) and the message with digits blanked.
pub fn panic_fingerprint(loc: &str, msg: &str) -> String {
    let file = loc.split(':').next().unwrap_or(loc);
    // the library is a path dependency: its files appear with the absolute path of the tree
    let file = match (file.find("/registry/src/"), file.rfind("/src/")) {
        (None, Some(i)) if file.starts_with('/') => &file[i + 1..],
        _ => file,
    };
    let file = file.trim_start_matches("src/bin/threadsim/").to_string();
    let file = if file.starts_with("cmd") {
        format!("src/{file}")
    } else {
        file
    };
    let file = match file.find("/registry/src/") {
        Some(i) => {
            let rest = &file[i + "/registry/src/".len()..];
            rest.split_once('/')
                .map(|(_, r)| format!("dep:{r}"))
                .unwrap_or(file.clone())
        }
        None => file,
    };
    let stem: String = msg
        .chars()
        .take(80)
        .map(|c| if c.is_ascii_digit() { '#' } else { c })
        .collect();
    format!("{file}|{stem}")
}

pub struct Ctx {
    pub hdwallet: PathBuf,
    pub threadsim: PathBuf,
    pub libprobe: PathBuf,
    pub shim: PathBuf,
    pub work_root: PathBuf,
    pub timeout: Duration,
}

impl Ctx {
    pub fn from_env() -> Self {
        let root = std::env::var("VERIF_ROOT").unwrap_or_else(|_| "/verif".into());
        let root = PathBuf::from(root);
        Ctx {
            hdwallet: root.join("target/repo/release/hdwallet"),
            threadsim: root.join("target/sim/release/threadsim"),
            libprobe: root.join("target/sim/release/libprobe"),
            shim: root.join("target/simos_preload.so"),
            work_root: root.join("work").join(format!("{}", std::process::id())),
            timeout: Duration::from_secs(10),
        }
    }

    pub fn worker_dir(&self, k: usize) -> PathBuf {
        let d = self.work_root.join(format!("w{k}"));
        std::fs::create_dir_all(&d).expect("create work dir");
        d
    }

    pub fn cleanup(&self) {
        let _ = std::fs::remove_dir_all(&self.work_root);
        if let Some(p) = self.work_root.parent() {
            let _ = std::fs::remove_dir(p); // only if empty
        }
    }
}

// --- watchdog ---------------------------------------------------------------

/// The watchdog measures the simulated process's own progress, not the host's: the budget is CPU
/// time (all threads), so a process that is merely starved by other jobs on the machine (load
/// average in the hundreds was observed while sub-agents were building) is given more wall-clock
/// time, while one that burns its budget spinning, or sits blocked with no runnable thread and no
/// CPU progress, is killed. A hard wall-clock cap (30x) bounds everything.
struct Deadline {
    next_check: Instant,
    hard: Instant,
    budget_ticks: u64,
    last_ticks: u64,
    last_check: Instant,
}

struct Watch {
    deadlines: HashMap<u32, Deadline>,
    killed: HashMap<u32, bool>,
}

/// (utime+stime in clock ticks of the whole process, does any thread look runnable?)
fn proc_progress(pid: u32) -> Option<(u64, bool)> {
    fn fields(stat: &str) -> Option<Vec<&str>> {
        // the command name is in parentheses and may contain blanks
        let rest = &stat[stat.rfind(')')? + 1..];
        Some(rest.split_ascii_whitespace().collect())
    }
    let stat = std::fs::read_to_string(format!("/proc/{pid}/stat")).ok()?;
    let f = fields(&stat)?;
    if f.first().copied() == Some("Z") {
        return None; // exited, about to be reaped: nothing to kill
    }
    // after the command name: state is field 0, utime 11, stime 12
    let ticks = f.get(11)?.parse::<u64>().ok()? + f.get(12)?.parse::<u64>().ok()?;
    let mut runnable = false;
    if let Ok(rd) = std::fs::read_dir(format!("/proc/{pid}/task")) {
        for t in rd.flatten() {
            if let Ok(ts) = std::fs::read_to_string(t.path().join("stat")) {
                if let Some(tf) = fields(&ts) {
                    if matches!(tf.first().copied(), Some("R") | Some("D")) {
                        runnable = true;
                    }
                }
            }
        }
    }
    Some((ticks, runnable))
}

fn watch() -> &'static Mutex<Watch> {
    static W: OnceLock<Mutex<Watch>> = OnceLock::new();
    W.get_or_init(|| {
        std::thread::spawn(|| loop {
            std::thread::sleep(Duration::from_millis(100));
            let mut w = watch().lock().unwrap();
            let now = Instant::now();
            let due: Vec<u32> = w
                .deadlines
                .iter()
                .filter(|(_, d)| d.next_check <= now)
                .map(|(p, _)| *p)
                .collect();
            let tick_hz = unsafe { libc::sysconf(libc::_SC_CLK_TCK) }.max(1) as u64;
            for pid in due {
                let d = w.deadlines.get_mut(&pid).unwrap();
                let kill = match proc_progress(pid) {
                    None => {
                        // the process is gone already (it exited at this very moment)
                        w.deadlines.remove(&pid);
                        continue;
                    }
                    Some((ticks, runnable)) => {
                        let stalled = ticks == d.last_ticks
                            && !runnable
                            && now.duration_since(d.last_check) >= Duration::from_secs(1);
                        if ticks >= d.budget_ticks || now >= d.hard || stalled {
                            true
                        } else {
                            // starved, not hung: wait for the rest of its CPU budget (at least 1 s)
                            let left = (d.budget_ticks - ticks) * 1000 / tick_hz;
                            d.last_ticks = ticks;
                            d.last_check = now;
                            d.next_check = now
                                + Duration::from_millis(if runnable { left.max(1000) } else { 1000 });
                            false
                        }
                    }
                };
                if kill {
                    unsafe { libc::kill(pid as i32, libc::SIGKILL) };
                    w.deadlines.remove(&pid);
                    w.killed.insert(pid, true);
                }
            }
        });
        Mutex::new(Watch {
            deadlines: HashMap::new(),
            killed: HashMap::new(),
        })
    })
}

fn read_file_lossy(p: &Path, cap: usize) -> Vec<u8> {
    let mut v = Vec::new();
    if let Ok(f) = std::fs::File::open(p) {
        let _ = f.take(cap as u64).read_to_end(&mut v);
    }
    v
}

fn parse_shim_log(text: &str) -> (Vec<EntEvent>, Vec<IoEvent>) {
    let mut ent = Vec::new();
    let mut io = Vec::new();
    for line in text.lines() {
        let f: Vec<&str> = line.split(' ').collect();
        match f.first().copied() {
            Some("E") if f.len() >= 6 => {
                let ok = f[4] == "ok";
                let step: u32 = f
                    .iter()
                    .rev()
                    .find_map(|t| t.strip_prefix('@'))
                    .and_then(|t| t.parse().ok())
                    .unwrap_or(0);
                let f: Vec<&str> = f.iter().copied().filter(|t| !t.starts_with('@')).collect();
                ent.push(EntEvent {
                    seq: f[1].parse().unwrap_or(0),
                    task: f[2].parse().unwrap_or(0),
                    len: f[3].parse().unwrap_or(0),
                    ok,
                    errno: if ok { 0 } else { f[5].parse().unwrap_or(0) },
                    bytes: if ok { f[5].to_string() } else { String::new() },
                    src: f.get(6).unwrap_or(&"plan").to_string(),
                    step,
                });
            }
            Some(t @ ("R" | "W")) if f.len() >= 5 => io.push(IoEvent {
                tag: t.chars().next().unwrap(),
                k: f[1].parse().unwrap_or(0),
                count: f[2].parse().unwrap_or(0),
                ret: f[3].parse().unwrap_or(0),
                errno: f[4].parse().unwrap_or(0),
            }),
            Some("F") if f.len() >= 6 => io.push(IoEvent {
                tag: 'F',
                k: f[1].parse().unwrap_or(0),
                count: f[3].parse().unwrap_or(0),
                ret: f[4].parse().unwrap_or(0),
                errno: f[5].parse().unwrap_or(0),
            }),
            _ => {}
        }
    }
    (ent, io)
}

#[derive(Debug)]
pub struct HarnessError(pub String);

/// Number of simulated processes that hit the watchdog once and completed when re-run alone.
pub static SPURIOUS_TIMEOUTS: std::sync::atomic::AtomicUsize =
    std::sync::atomic::AtomicUsize::new(0);

/// Execute one simulated process in `dir` (a directory owned by the calling
/// worker; it is emptied first). A process killed by the wall-clock watchdog is
/// executed once more, alone (no other re-run at the same time), before the
/// timeout is believed: the watchdog is the only place
/// where host load could leak into a verdict.
pub fn exec(ctx: &Ctx, dir: &Path, cmd: &Cmd) -> Result<Outcome, HarnessError> {
    use std::sync::atomic::Ordering::Relaxed;
    static ALONE: Mutex<()> = Mutex::new(());
    let first = exec_once(ctx, dir, cmd, ctx.timeout)?;
    if first.status != Status::Timeout {
        return Ok(first);
    }
    // Once four timeouts were confirmed by their re-run, this tree evidently hangs for real and
    // further re-runs (serialised, 10 s each) would only cost time.
    if CONFIRMED_TIMEOUTS.load(Relaxed) >= 4 {
        return Ok(first);
    }
    let _g = ALONE.lock().unwrap_or_else(|e| e.into_inner());
    let second = exec_once(ctx, dir, cmd, ctx.timeout)?;
    if second.status != Status::Timeout {
        SPURIOUS_TIMEOUTS.fetch_add(1, Relaxed);
    } else {
        CONFIRMED_TIMEOUTS.fetch_add(1, Relaxed);
    }
    Ok(second)
}

/// Watchdog kills that were confirmed by the re-run.
pub static CONFIRMED_TIMEOUTS: std::sync::atomic::AtomicUsize = std::sync::atomic::AtomicUsize::new(0);
/// Set once the shuttle executor (E2) proved unable to run this tree's threaded scenarios: its
/// threads are created outside the seam, or code outside the seam blocks on real std locks across
/// scheduling points. Threaded scenarios then go straight to the real binary under the shim (E3).
pub static E2_UNUSABLE: std::sync::atomic::AtomicUsize = std::sync::atomic::AtomicUsize::new(0);

fn exec_once(ctx: &Ctx, dir: &Path, cmd: &Cmd, timeout: Duration) -> Result<Outcome, HarnessError> {
    let he = |s: String| HarnessError(s);
    // fresh directory contents
    if let Ok(rd) = std::fs::read_dir(dir) {
        for e in rd.flatten() {
            let _ = std::fs::remove_file(e.path());
        }
    }
    for f in &cmd.files {
        if f.name.contains('/') || f.name.starts_with('.') {
            return Err(he(format!("bad file name {}", f.name)));
        }
        std::fs::write(dir.join(&f.name), &f.data)
            .map_err(|e| he(format!("write input file: {e}")))?;
    }
    let stdin_path = dir.join(".stdin");
    let stdout_path = dir.join(".stdout");
    let stderr_path = dir.join(".stderr");
    let open_out =
        |p: &Path| std::fs::File::create(p).map_err(|e| HarnessError(format!("create {p:?}: {e}")));

    let mut c;
    let hist_path = dir.join(".history.json");
    let log_path = dir.join(".simos.log");
    let e2_exec = cmd.e2.is_some() && !cmd.e3;
    if let (Some(e2), true) = (&cmd.e2, e2_exec) {
        let sc = E2Scenario {
            argv: cmd.argv.clone(),
            entropy: cmd.entropy.clone(),
            tail: cmd.tail.clone(),
            sched: e2.sched.clone(),
            max_steps: e2.max_steps,
            generous_bound: e2.generous_bound,
            generous_requests: e2.generous_requests,
            lib_tasks: e2.lib_tasks,
            lib_len: e2.lib_len,
            lib_calls: e2.lib_calls,
        };
        let sc_path = dir.join(".scenario.json");
        std::fs::write(&sc_path, serde_json::to_vec(&sc).unwrap())
            .map_err(|e| he(format!("write scenario: {e}")))?;
        c = Command::new(&ctx.threadsim);
        c.arg(&sc_path).arg(&hist_path);
    } else {
        let mut plan = String::new();
        for r in &cmd.entropy {
            plan.push_str(&r.plan_line('E'));
        }
        if let Some(t) = &cmd.tail {
            plan.push_str(&t.plan_line('T'));
        }
        for s in &cmd.rplan {
            plan.push_str(&s.plan_line('R'));
        }
        for s in &cmd.wplan {
            plan.push_str(&s.plan_line('W'));
        }
        for s in &cmd.fplan {
            plan.push_str(&s.plan_line('F'));
        }
        if let (Some(e2), true) = (&cmd.e2, cmd.e3) {
            // engine E3: the shim schedules the real threads with the same seeded policies
            // (random walk, sticky, PCT-like priorities with change points, long preemptions).
            let policy = match e2.sched.policy.as_str() {
                "sticky" => "sticky",
                "trace" => "trace",
                "pct" => "pct",
                "stall" => "stall",
                _ => "random",
            };
            plan.push_str(&format!(
                "S {policy} {} {} {} {} {}\n",
                e2.sched.seed,
                e2.sched.param,
                e2.max_steps,
                e2.generous_requests,
                e2.sched.horizon.max(1)
            ));
            for c in &e2.sched.trace {
                plan.push_str(&format!("C {c}\n"));
            }
        }
        let plan_path = dir.join(".plan");
        std::fs::write(&plan_path, plan).map_err(|e| he(format!("write plan: {e}")))?;
        c = Command::new(if cmd.libprobe { &ctx.libprobe } else { &ctx.hdwallet });
        c.args(&cmd.argv);
        c.env("LD_PRELOAD", &ctx.shim)
            .env("SIMOS_PLAN", &plan_path)
            .env("SIMOS_LOG", &log_path)
            .env("SIMOS_FDIR", dir);
    }
    c.env_remove("RUST_BACKTRACE");
    // The simulated process sees exactly the environment of the scenario.
    let keep: Vec<(String, String)> = c
        .get_envs()
        .filter_map(|(k, v)| {
            v.map(|v| {
                (
                    k.to_string_lossy().into_owned(),
                    v.to_string_lossy().into_owned(),
                )
            })
        })
        .collect();
    c.env_clear();
    for (k, v) in keep {
        c.env(k, v);
    }
    for (k, v) in &cmd.env {
        c.env(k, v);
    }
    c.current_dir(dir);
    let mut pipe_writer: Option<std::thread::JoinHandle<()>> = None;
    match &cmd.stdin {
        Some(data) if cmd.stdin_pipe => {
            use std::os::fd::FromRawFd;
            let mut fds = [0i32; 2];
            if unsafe { libc::pipe2(fds.as_mut_ptr(), libc::O_CLOEXEC) } != 0 {
                return Err(he("pipe2 failed".into()));
            }
            let (rd, wr) = unsafe {
                (
                    std::fs::File::from_raw_fd(fds[0]),
                    std::fs::File::from_raw_fd(fds[1]),
                )
            };
            // grow the pipe so that the whole input is in it before the process starts: what
            // each read(2) returns is then decided by the plan alone
            unsafe {
                libc::fcntl(
                    fds[1],
                    libc::F_SETPIPE_SZ,
                    (data.len() + 4096).next_power_of_two().max(65536) as libc::c_int,
                )
            };
            let cap = unsafe { libc::fcntl(fds[1], libc::F_GETPIPE_SZ) } as usize;
            if data.len() <= cap {
                use std::io::Write;
                let mut wr = wr;
                wr.write_all(data)
                    .map_err(|e| he(format!("fill pipe: {e}")))?;
                drop(wr);
            } else {
                let data = data.clone();
                pipe_writer = Some(std::thread::spawn(move || {
                    use std::io::Write;
                    let mut wr = wr;
                    let _ = wr.write_all(&data);
                }));
            }
            c.stdin(rd);
        }
        Some(data) => {
            std::fs::write(&stdin_path, data).map_err(|e| he(format!("write stdin: {e}")))?;
            c.stdin(std::fs::File::open(&stdin_path).map_err(|e| he(format!("open stdin: {e}")))?);
        }
        None => {
            c.stdin(Stdio::null());
        }
    }
    c.stdout(open_out(&stdout_path)?)
        .stderr(open_out(&stderr_path)?);

    let t0 = Instant::now();
    let mut child = c.spawn().map_err(|e| he(format!("spawn: {e}")))?;
    let pid = child.id();
    // A runaway allocation in the code under test (an endless loop that grows a Vec) must end in
    // that process's allocation failure, not in the host's OOM killer picking a victim. Set from
    // outside right after the spawn (keeps std's fast posix_spawn path).
    unsafe {
        let lim = libc::rlimit { rlim_cur: 3 << 30, rlim_max: 3 << 30 };
        libc::prlimit(pid as libc::pid_t, libc::RLIMIT_AS, &lim, std::ptr::null_mut());
    }
    {
        // 20 ms of allowance per planned entropy response (a vanity candidate costs < 2 ms)
        let budget = timeout + Duration::from_millis(20 * cmd.entropy.len() as u64);
        let tick_hz = unsafe { libc::sysconf(libc::_SC_CLK_TCK) }.max(1) as u64;
        let now = Instant::now();
        watch().lock().unwrap().deadlines.insert(
            pid,
            Deadline {
                next_check: now + budget,
                hard: now + budget * 30,
                budget_ticks: budget.as_millis() as u64 * tick_hz / 1000,
                last_ticks: 0,
                last_check: now,
            },
        );
    }
    let st = child.wait().map_err(|e| he(format!("wait: {e}")))?;
    drop(c); // closes our copy of the pipe's read end, so a writer thread cannot block for ever
    if let Some(w) = pipe_writer {
        let _ = w.join();
    }
    let killed = {
        let mut w = watch().lock().unwrap();
        w.deadlines.remove(&pid);
        w.killed.remove(&pid).unwrap_or(false)
    };
    let wall_us = t0.elapsed().as_micros() as u64;

    use std::os::unix::process::ExitStatusExt;
    let mut status = if killed {
        Status::Timeout
    } else if let Some(code) = st.code() {
        Status::Exit(code)
    } else {
        Status::Signal(st.signal().unwrap_or(0))
    };

    let stdout = read_file_lossy(&stdout_path, 1 << 22);
    let stderr = String::from_utf8_lossy(&read_file_lossy(&stderr_path, 4096)).into_owned();
    let (ent, io, e2) = if e2_exec {
        match std::fs::read(&hist_path)
            .ok()
            .and_then(|b| serde_json::from_slice::<E2History>(&b).ok())
        {
            Some(h) => {
                // the executor encodes the way the run ended in its exit status;
                // the simulated process's own status is in the history
                match (h.end.as_str(), h.exit) {
                    ("exit", Some(code)) => {
                        if status != Status::Exit(code & 0xff) {
                            return Err(he(format!(
                                "threadsim status {status:?} disagrees with history exit {code}"
                            )));
                        }
                        status = Status::Exit(code & 0xff);
                    }
                    ("harness", _) => {
                        return Err(he(format!("threadsim harness error: {}", h.detail)))
                    }
                    _ => {}
                }
                (h.entropy.clone(), Vec::new(), Some(h))
            }
            None => {
                if status == Status::Exit(74) {
                    return Err(he("SEAM-ESCAPE: a real OS thread reached the entropy device (threads created outside the instrumented module)".into()));
                }
                if status == Status::Timeout {
                    (Vec::new(), Vec::new(), None)
                } else if let Status::Signal(_) = status {
                    // the process under simulation aborted (stack overflow, abort(), double panic)
                    (Vec::new(), Vec::new(), None)
                } else {
                    return Err(he(format!(
                        "threadsim left no history (status {status:?}, stderr: {})",
                        stderr.chars().take(400).collect::<String>()
                    )));
                }
            }
        }
    } else {
        let log = String::from_utf8_lossy(&read_file_lossy(&log_path, 1 << 22)).into_owned();
        let (ent, io) = parse_shim_log(&log);
        if status == Status::Exit(96) && ent.is_empty() && io.is_empty() {
            return Err(he("shim could not open its plan".into()));
        }
        let mut hist = None;
        if cmd.e3 && cmd.e2.is_some() {
            let mut h = e3_history(&log, &ent, &stderr);
            match (h.end.as_str(), &status) {
                ("deadlock", Status::Exit(71))
                | ("budget", Status::Exit(72))
                | ("liveness", Status::Exit(73)) => {}
                ("exit", Status::Exit(c)) => h.exit = Some(*c),
                (_, Status::Timeout) | (_, Status::Signal(_)) => h.end = "killed".into(),
                (e, st) => {
                    return Err(he(format!(
                        "E3 log says the run ended with '{e}' but the process status is {st:?}"
                    )))
                }
            }
            hist = Some(h);
        }
        (ent, io, hist)
    };
    Ok(Outcome {
        status,
        stdout,
        stderr,
        ent,
        io,
        e2,
        wall_us,
    })
}

/// Engine E3: reconstruct the run's history from the shim's scheduler log.
fn e3_history(log: &str, ent: &[EntEvent], stderr: &str) -> E2History {
    let mut h = E2History {
        end: "exit".into(),
        tasks: 1,
        entropy: ent.to_vec(),
        ..E2History::default()
    };
    let mut ended = false;
    for line in log.lines() {
        let f: Vec<&str> = line.split(' ').collect();
        match f.first().copied() {
            Some("C") if f.len() >= 2 => h.choices.push(f[1].parse().unwrap_or(0)),
            Some("B") => h.tasks += 1,
            Some("F") if f.len() >= 3 => {
                h.finished_before_exit.push(f[1].parse().unwrap_or(0));
                h.finished_steps.push(f[2].parse().unwrap_or(0));
            }
            Some("D") => h.detail = format!("no runnable thread; {}", &line[2..]),
            Some("X") if f.len() >= 4 && !ended => {
                h.end = f[1].to_string();
                h.steps = f[2].parse().unwrap_or(0);
                h.sched_hash = f[3].to_string();
                ended = true;
            }
            _ => {}
        }
    }
    h.unfinished_at_end = h
        .tasks
        .saturating_sub(h.finished_before_exit.len() as u32 + 1);
    h.preemptions = h.choices.windows(2).filter(|w| w[0] != w[1]).count() as u32;
    h.generous_at_step = ent.iter().find(|e| e.src == "tail").map(|e| e.step);
    // real threads report their panics on stderr
    let mut rest = stderr;
    while let Some(i) = rest.find("panicked at ") {
        let tail = &rest[i + "panicked at ".len()..];
        let (loc, after) = tail.split_once('\n').unwrap_or((tail, ""));
        let msg = after.lines().next().unwrap_or("").to_string();
        let thread_main = rest[..i]
            .rsplit('\n')
            .next()
            .map(|l| l.contains("'main'"))
            .unwrap_or(false);
        h.panics.push(PanicEvent {
            task: if thread_main { 0 } else { u32::MAX },
            msg,
            loc: loc.trim_end_matches(':').to_string(),
            step: 0,
        });
        if !thread_main {
            h.died += 1;
        }
        rest = after;
    }
    h
}
