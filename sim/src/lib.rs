//! Deterministic simulation with fault injection for nlordell/hdwallet.
//! See /verif/DESIGN.md.

pub mod cases;
pub mod e2proto;
pub mod exec;
pub mod framework;
pub mod prng;
pub mod refmodel;
