//! The only source of randomness in the simulator: splitmix64 for seed
//! derivation and xoshiro256** for streams. No OS entropy, no clock.

pub fn splitmix64(mut x: u64) -> u64 {
    x = x.wrapping_add(0x9E37_79B9_7F4A_7C15);
    let mut z = x;
    z = (z ^ (z >> 30)).wrapping_mul(0xBF58_476D_1CE4_E5B9);
    z = (z ^ (z >> 27)).wrapping_mul(0x94D0_49BB_1331_11EB);
    z ^ (z >> 31)
}

/// Seed of run `i` of a batch started with `VERIF_SEED = seed`. `stream`
/// separates the checks so C12 run 5 and C18 run 5 are unrelated.
pub fn run_seed(seed: u64, stream: u64, i: u64) -> u64 {
    splitmix64(seed ^ splitmix64(stream) ^ i.wrapping_mul(0x9E37_79B9_7F4A_7C15))
}

#[derive(Clone, Debug)]
pub struct Rng {
    s: [u64; 4],
}

impl Rng {
    pub fn new(seed: u64) -> Self {
        let mut x = seed;
        let mut s = [0u64; 4];
        for v in s.iter_mut() {
            x = splitmix64(x);
            *v = x;
        }
        if s == [0; 4] {
            s[0] = 1;
        }
        Rng { s }
    }

    /// Independent child stream (for sub-components of one run).
    pub fn fork(&mut self, label: u64) -> Rng {
        Rng::new(self.next_u64() ^ splitmix64(label))
    }

    pub fn next_u64(&mut self) -> u64 {
        let s = &mut self.s;
        let result = s[1].wrapping_mul(5).rotate_left(7).wrapping_mul(9);
        let t = s[1] << 17;
        s[2] ^= s[0];
        s[3] ^= s[1];
        s[1] ^= s[2];
        s[0] ^= s[3];
        s[2] ^= t;
        s[3] = s[3].rotate_left(45);
        result
    }

    /// Uniform in 0..n (n > 0). Modulo bias is irrelevant here.
    pub fn below(&mut self, n: u64) -> u64 {
        debug_assert!(n > 0);
        self.next_u64() % n
    }

    pub fn usize_below(&mut self, n: usize) -> usize {
        self.below(n as u64) as usize
    }

    /// Uniform in lo..=hi.
    pub fn range(&mut self, lo: u64, hi: u64) -> u64 {
        lo + self.below(hi - lo + 1)
    }

    /// True with probability num/den.
    pub fn chance(&mut self, num: u64, den: u64) -> bool {
        self.below(den) < num
    }

    pub fn coin(&mut self) -> bool {
        self.next_u64() & 1 == 1
    }

    pub fn pick<'a, T>(&mut self, xs: &'a [T]) -> &'a T {
        &xs[self.usize_below(xs.len())]
    }

    /// Pick an index according to integer weights.
    pub fn weighted(&mut self, weights: &[u64]) -> usize {
        let total: u64 = weights.iter().sum();
        let mut x = self.below(total);
        for (i, w) in weights.iter().enumerate() {
            if x < *w {
                return i;
            }
            x -= *w;
        }
        weights.len() - 1
    }

    pub fn bytes(&mut self, n: usize) -> Vec<u8> {
        let mut v = Vec::with_capacity(n);
        while v.len() < n {
            let x = self.next_u64().to_le_bytes();
            let take = (n - v.len()).min(8);
            v.extend_from_slice(&x[..take]);
        }
        v
    }

    /// Random bytes of a random length in lo..=hi.
    pub fn bytes_between(&mut self, lo: usize, hi: usize) -> Vec<u8> {
        let n = self.range(lo as u64, hi as u64) as usize;
        self.bytes(n)
    }

    pub fn shuffle<T>(&mut self, xs: &mut [T]) {
        for i in (1..xs.len()).rev() {
            let j = self.usize_below(i + 1);
            xs.swap(i, j);
        }
    }
}

/// FNV-1a 64, used for event-log and shape hashes (stable across processes,
/// unlike std's randomly keyed hasher).
pub fn fnv1a(data: &[u8]) -> u64 {
    let mut h: u64 = 0xcbf2_9ce4_8422_2325;
    for b in data {
        h ^= *b as u64;
        h = h.wrapping_mul(0x0000_0100_0000_01B3);
    }
    h
}

#[derive(Clone, Copy)]
pub struct Fnv(pub u64);

impl Default for Fnv {
    fn default() -> Self {
        Fnv(0xcbf2_9ce4_8422_2325)
    }
}

impl Fnv {
    pub fn new() -> Self {
        Self::default()
    }
    pub fn write(&mut self, data: &[u8]) {
        for b in data {
            self.0 ^= *b as u64;
            self.0 = self.0.wrapping_mul(0x0000_0100_0000_01B3);
        }
        // field separator so ("ab","c") != ("a","bc")
        self.0 ^= 0xff;
        self.0 = self.0.wrapping_mul(0x0000_0100_0000_01B3);
    }
    pub fn write_u64(&mut self, x: u64) {
        self.write(&x.to_le_bytes());
    }
    pub fn finish(&self) -> u64 {
        self.0
    }
}
