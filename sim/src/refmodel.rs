//! Independent reference wallet used by the oracles. It never calls into the
//! `hdwallet` crate: BIP-39, BIP-32, address derivation, EIP-55, EIP-191 and
//! signature recovery are composed here directly from the RustCrypto
//! primitives (`sha2`, `sha3`, `hmac`, `pbkdf2`, `k256`).

use hmac::{Hmac, Mac};
use k256::{
    ecdsa::{RecoveryId, Signature as EcdsaSignature, VerifyingKey},
    elliptic_curve::{sec1::ToEncodedPoint, PrimeField},
    ProjectivePoint, Scalar,
};
use sha2::{Digest as _, Sha256, Sha512};
use sha3::Keccak256;
use std::sync::OnceLock;
use unicode_normalization::UnicodeNormalization;

const ENGLISH: &str = include_str!("../../ref/english.txt");

pub fn wordlist() -> &'static Vec<&'static str> {
    static W: OnceLock<Vec<&'static str>> = OnceLock::new();
    W.get_or_init(|| {
        let w: Vec<&str> = ENGLISH.lines().collect();
        assert_eq!(w.len(), 2048);
        w
    })
}

pub fn word_index(word: &str) -> Option<usize> {
    wordlist().binary_search(&word).ok()
}

pub const SUPPORTED_LENGTHS: [usize; 5] = [12, 15, 18, 21, 24];

/// Entropy byte length for a supported word count.
pub fn entropy_len(words: usize) -> Option<usize> {
    if SUPPORTED_LENGTHS.contains(&words) {
        Some(words * 4 / 3)
    } else {
        None
    }
}

pub fn sha256(data: &[u8]) -> [u8; 32] {
    Sha256::digest(data).into()
}

pub fn keccak256(data: &[u8]) -> [u8; 32] {
    Keccak256::digest(data).into()
}

/// BIP-39: entropy (16/20/24/28/32 bytes) -> phrase.
pub fn bip39_encode(entropy: &[u8]) -> Option<String> {
    if !matches!(entropy.len(), 16 | 20 | 24 | 28 | 32) {
        return None;
    }
    let cs_bits = entropy.len() / 4; // ENT/32 with ENT in bits = len*8/32
    let hash = sha256(entropy);
    let mut bits: Vec<bool> = Vec::with_capacity(entropy.len() * 8 + cs_bits);
    for b in entropy {
        for i in (0..8).rev() {
            bits.push((b >> i) & 1 == 1);
        }
    }
    for i in 0..cs_bits {
        bits.push((hash[i / 8] >> (7 - i % 8)) & 1 == 1);
    }
    assert_eq!(bits.len() % 11, 0);
    let words: Vec<&str> = bits
        .chunks(11)
        .map(|c| {
            let idx = c.iter().fold(0usize, |a, b| (a << 1) | (*b as usize));
            wordlist()[idx]
        })
        .collect();
    Some(words.join(" "))
}

/// BIP-39: phrase -> entropy, strict (five lengths, list words, checksum).
pub fn bip39_decode(phrase: &str) -> Result<Vec<u8>, String> {
    let words: Vec<&str> = phrase.split_whitespace().collect();
    let ent_len =
        entropy_len(words.len()).ok_or_else(|| format!("bad word count {}", words.len()))?;
    let mut bits: Vec<bool> = Vec::with_capacity(words.len() * 11);
    for w in &words {
        let idx = word_index(w).ok_or_else(|| format!("unknown word {w}"))?;
        for i in (0..11).rev() {
            bits.push((idx >> i) & 1 == 1);
        }
    }
    let mut entropy = vec![0u8; ent_len];
    for (i, bit) in bits[..ent_len * 8].iter().enumerate() {
        if *bit {
            entropy[i / 8] |= 1 << (7 - i % 8);
        }
    }
    let hash = sha256(&entropy);
    for (i, bit) in bits[ent_len * 8..].iter().enumerate() {
        let h = (hash[i / 8] >> (7 - i % 8)) & 1 == 1;
        if h != *bit {
            return Err("checksum mismatch".into());
        }
    }
    Ok(entropy)
}

/// BIP-39 seed: PBKDF2-HMAC-SHA512(phrase, "mnemonic" + NFKD(password), 2048).
pub fn seed(phrase: &str, password: &str) -> [u8; 64] {
    let phrase_n: String = phrase.nfkd().collect();
    let salt: String = format!("mnemonic{password}").nfkd().collect();
    let mut out = [0u8; 64];
    pbkdf2::pbkdf2::<Hmac<Sha512>>(phrase_n.as_bytes(), salt.as_bytes(), 2048, &mut out)
        .expect("pbkdf2");
    out
}

/// One path component: (index < 2^31, hardened).
pub type PathComp = (u32, bool);

pub fn default_path(index: u32) -> Vec<PathComp> {
    vec![
        (44, true),
        (60, true),
        (0, true),
        (0, false),
        (index, false),
    ]
}

pub fn path_to_string(path: &[PathComp]) -> String {
    let mut s = String::from("m");
    for (i, h) in path {
        s.push('/');
        s.push_str(&i.to_string());
        if *h {
            s.push('\'');
        }
    }
    s
}

fn scalar_from(bytes: &[u8]) -> Option<Scalar> {
    let arr: [u8; 32] = bytes.try_into().ok()?;
    Option::<Scalar>::from(Scalar::from_repr(arr.into()))
}

fn point_compressed(k: &Scalar) -> Vec<u8> {
    (ProjectivePoint::GENERATOR * *k)
        .to_affine()
        .to_encoded_point(true)
        .as_bytes()
        .to_vec()
}

/// BIP-32 private derivation from a seed. `None` when the (astronomically
/// unlikely) invalid-child condition occurs.
pub fn derive(seed: &[u8], path: &[PathComp]) -> Option<[u8; 32]> {
    let mut mac = Hmac::<Sha512>::new_from_slice(b"Bitcoin seed").unwrap();
    mac.update(seed);
    let i = mac.finalize().into_bytes();
    let mut k = scalar_from(&i[..32])?;
    if bool::from(k.is_zero()) {
        return None;
    }
    let mut chain: [u8; 32] = i[32..].try_into().unwrap();
    for (index, hardened) in path {
        assert!(*index < 0x8000_0000);
        let mut mac = Hmac::<Sha512>::new_from_slice(&chain).unwrap();
        let ser = if *hardened {
            mac.update(&[0u8]);
            mac.update(&k.to_bytes());
            index | 0x8000_0000
        } else {
            mac.update(&point_compressed(&k));
            *index
        };
        mac.update(&ser.to_be_bytes());
        let i = mac.finalize().into_bytes();
        let il = scalar_from(&i[..32])?;
        if bool::from(il.is_zero()) {
            return None;
        }
        let child = il + k;
        if bool::from(child.is_zero()) {
            return None;
        }
        k = child;
        chain = i[32..].try_into().unwrap();
    }
    Some(k.to_bytes().into())
}

pub fn public_uncompressed(secret: &[u8; 32]) -> Option<[u8; 65]> {
    let k = scalar_from(secret)?;
    if bool::from(k.is_zero()) {
        return None;
    }
    let p = (ProjectivePoint::GENERATOR * k)
        .to_affine()
        .to_encoded_point(false);
    p.as_bytes().try_into().ok()
}

pub fn address_of_secret(secret: &[u8; 32]) -> Option<[u8; 20]> {
    let p = public_uncompressed(secret)?;
    let h = keccak256(&p[1..]);
    Some(h[12..].try_into().unwrap())
}

/// EIP-55 mixed-case checksum encoding, with 0x prefix.
pub fn eip55(addr: &[u8; 20]) -> String {
    let lower = hex::encode(addr);
    let h = keccak256(lower.as_bytes());
    let mut out = String::from("0x");
    for (i, c) in lower.chars().enumerate() {
        let nib = (h[i / 2] >> (if i % 2 == 0 { 4 } else { 0 })) & 0xf;
        if c.is_ascii_alphabetic() && nib >= 8 {
            out.push(c.to_ascii_uppercase());
        } else {
            out.push(c);
        }
    }
    out
}

pub fn eip191_digest(msg: &[u8]) -> [u8; 32] {
    let mut buf = Vec::new();
    buf.extend_from_slice(b"\x19Ethereum Signed Message:\n");
    buf.extend_from_slice(msg.len().to_string().as_bytes());
    buf.extend_from_slice(msg);
    keccak256(&buf)
}

/// Recover the signer address from (digest, r, s, parity).
pub fn recover(digest: &[u8; 32], r: &[u8; 32], s: &[u8; 32], y_odd: bool) -> Option<[u8; 20]> {
    let sig = EcdsaSignature::from_scalars(*r, *s).ok()?;
    let rid = RecoveryId::new(y_odd, false);
    let vk = VerifyingKey::recover_from_prehash(digest, &sig, rid).ok()?;
    let p = vk.to_encoded_point(false);
    let h = keccak256(&p.as_bytes()[1..]);
    Some(h[12..].try_into().unwrap())
}

/// Everything the oracles need about one wallet account.
#[derive(Clone, Debug)]
pub struct Account {
    pub secret: [u8; 32],
    pub public: [u8; 65],
    pub address: [u8; 20],
}

pub fn account(phrase: &str, password: &str, path: &[PathComp]) -> Option<Account> {
    let s = seed(phrase, password);
    let secret = derive(&s, path)?;
    let public = public_uncompressed(&secret)?;
    let address = address_of_secret(&secret)?;
    Some(Account {
        secret,
        public,
        address,
    })
}

/// Address of the account selected by `path` for raw entropy (used to plant
/// vanity matches).
pub fn address_of_entropy(entropy: &[u8], password: &str, path: &[PathComp]) -> Option<[u8; 20]> {
    let phrase = bip39_encode(entropy)?;
    account(&phrase, password, path).map(|a| a.address)
}

/// Does `addr` start with the hex digits `digits` (case-insensitive)?
pub fn has_prefix(addr: &[u8; 20], digits: &str) -> bool {
    let h = hex::encode(addr);
    digits.len() <= 40 && h.starts_with(&digits.to_ascii_lowercase())
}

#[cfg(test)]
mod tests {
    use super::*;

    #[test]
    fn bip39_vectors() {
        assert_eq!(
            bip39_encode(&[0u8; 16]).unwrap(),
            "abandon abandon abandon abandon abandon abandon abandon abandon abandon abandon abandon about"
        );
        let e = hex::decode("f585c11aec520db57dd353c69554b21a89b20fb0650966fa0a9d6f74fd989d8f")
            .unwrap();
        let p = bip39_encode(&e).unwrap();
        assert_eq!(
            p,
            "void come effort suffer camp survey warrior heavy shoot primary clutch crush open amazing screen patrol group space point ten exist slush involve unfold"
        );
        assert_eq!(bip39_decode(&p).unwrap(), e);
        assert_eq!(
            hex::encode(seed(&p, "TREZOR")),
            "01f5bced59dec48e362f2c45b5de68b9fd6c92c6634f44d6d40aab69056506f0e35524a518034ddc1192e1dacd32c1ed3eaa3c3b131c88ed8e7e54c49a5d0998"
        );
        // 18-word Trezor vector
        let e = hex::decode("808080808080808080808080808080808080808080808080").unwrap();
        assert_eq!(
            bip39_encode(&e).unwrap(),
            "letter advice cage absurd amount doctor acoustic avoid letter advice cage absurd amount doctor acoustic avoid letter always"
        );
    }

    #[test]
    fn ganache_account() {
        let phrase =
            "myth like bonus scare over problem client lizard pioneer submit female collect";
        let a = account(phrase, "", &default_path(0)).unwrap();
        assert_eq!(
            eip55(&a.address),
            "0x90F8bf6A479f320ead074411a4B0e7944Ea8c9C1"
        );
        assert_eq!(
            hex::encode(a.secret),
            "4f3edf983ac636a65a842ce7c78d9aa706d3b113bce9c46f30d7d21715b23b1d"
        );
        let a1 = account(phrase, "", &default_path(1)).unwrap();
        assert_eq!(
            eip55(&a1.address),
            "0xFFcf8FDEE72ac11b5c542428B35EEF5769C409f0"
        );
    }

    #[test]
    fn bip32_vector1() {
        // BIP-32 test vector 1, chain m/0'/1/2'/2/1000000000
        let seed = hex::decode("000102030405060708090a0b0c0d0e0f").unwrap();
        let k = derive(
            &seed,
            &[
                (0, true),
                (1, false),
                (2, true),
                (2, false),
                (1000000000, false),
            ],
        )
        .unwrap();
        assert_eq!(
            hex::encode(k),
            "471b76e389e528d6de6d816857e012c5455051cad6660850e58372a6c3e6e7c8"
        );
    }

    #[test]
    fn recover_ganache_sig() {
        let d = keccak256(b"\x19Ethereum Signed Message:\n12Hello World!");
        assert_eq!(d, eip191_digest(b"Hello World!"));
        let r: [u8; 32] =
            hex::decode("408790f153cbfa2722fc708a57d97a43b24429724cf060df7c915d468c43bd84")
                .unwrap()
                .try_into()
                .unwrap();
        let s: [u8; 32] =
            hex::decode("61c96aac95ce37d7a31087b6634f4a3ea439a9f704b5c818584fa2a32fa83859")
                .unwrap()
                .try_into()
                .unwrap();
        let a = recover(&d, &r, &s, true).unwrap();
        assert_eq!(eip55(&a), "0x90F8bf6A479f320ead074411a4B0e7944Ea8c9C1");
    }
}
