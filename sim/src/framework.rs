//! Check driver shared by all properties: seeded batch execution on all
//! cores, on-the-fly determinism re-execution, known-findings triage,
//! minimisation, replay files and evidence.

use crate::cases::AnyCase;
use crate::exec::{Ctx, HarnessError};
use crate::prng::Fnv;
use serde::{Deserialize, Serialize};
use serde_json::{json, Value};
use std::collections::{BTreeMap, BTreeSet};
use std::path::{Path, PathBuf};
use std::sync::atomic::{AtomicBool, AtomicUsize, Ordering};
use std::sync::Mutex;
use std::time::Instant;

#[derive(Clone, Debug, Serialize, Deserialize, PartialEq, Eq)]
pub struct Violation {
    pub property: String,
    /// which sentence of the oracle failed
    pub clause: String,
    /// stable identity inside the clause (panic site, input class, ...)
    pub fingerprint: String,
    pub detail: String,
}

impl Violation {
    pub fn new(
        property: &str,
        clause: &str,
        fingerprint: impl Into<String>,
        detail: impl Into<String>,
    ) -> Self {
        Violation {
            property: property.into(),
            clause: clause.into(),
            fingerprint: fingerprint.into(),
            detail: detail.into(),
        }
    }
    pub fn same_class(&self, o: &Violation) -> bool {
        self.property == o.property && self.clause == o.clause && self.fingerprint == o.fingerprint
    }
}

/// What one case execution reports besides violations.
#[derive(Clone, Debug, Default)]
pub struct RunReport {
    pub violations: Vec<Violation>,
    pub event_hash: u64,
    /// identity used for `distinct_nontrivial`
    pub shape: u64,
    /// did a fault fire or a second task run (see the evidence `rule`)
    pub nontrivial: bool,
    /// fault kind -> (configured in this run, times it actually fired)
    pub faults: BTreeMap<String, (u64, u64)>,
    /// reach probes hit in this run
    pub probes: BTreeMap<String, u64>,
    /// simulated processes started
    pub procs: u64,
    /// scheduler decisions
    pub sched_steps: u64,
    /// simulated system calls (entropy requests, planned reads and writes)
    pub syscalls: u64,
    /// runs whose E2 result was cross-checked against the real binary (E1)
    pub cross_validated: u64,
    /// written-out history, kept only for the first few runs
    pub history: Value,
    pub fault_free: bool,
    /// E2: the schedule actually taken, for turning a seeded case into an explicit one
    pub explicit_choices: Option<Vec<u32>>,
    /// E2/E3: identity of the interleaving (hash over every (runnable set, choice) pair), set
    /// when more than one task was ever runnable
    pub schedule_id: Option<u64>,
}

impl RunReport {
    pub fn fault(&mut self, kind: &str, configured: u64, fired: u64) {
        let e = self.faults.entry(kind.to_string()).or_insert((0, 0));
        e.0 += configured;
        e.1 += fired;
    }
    pub fn probe(&mut self, name: &str, hit: bool) {
        let e = self.probes.entry(name.to_string()).or_insert(0);
        if hit {
            *e += 1;
        }
    }
    pub fn violate(
        &mut self,
        property: &str,
        clause: &str,
        fingerprint: impl Into<String>,
        detail: impl Into<String>,
    ) {
        self.violations
            .push(Violation::new(property, clause, fingerprint, detail));
    }
}

/// A batch: case `i` is a pure function of (seed, i). Indices below
/// `enumerated()` come from a fixed table, the rest from the seeded generator.
pub trait Plan: Sync {
    fn total(&self) -> usize;
    fn enumerated(&self) -> usize;
    fn case(&self, idx: usize) -> AnyCase;
    fn rule(&self) -> String;
    fn assumptions(&self) -> Vec<String>;
    fn components(&self) -> Value;
    /// probes that must be non-zero for the batch to be considered to have
    /// reached what it claims (reported, and enforced by the self-test only)
    fn required_probes(&self) -> Vec<String> {
        Vec::new()
    }
}

#[derive(Clone, Debug, Serialize, Deserialize)]
pub struct KnownFinding {
    pub property: String,
    pub clause: String,
    /// substring of the violation fingerprint
    #[serde(rename = "match")]
    pub pattern: String,
    pub what: String,
}

#[derive(Clone, Debug, Default, Serialize, Deserialize)]
pub struct KnownFindings {
    #[serde(default)]
    pub findings: Vec<KnownFinding>,
    #[serde(default)]
    pub fixed: Vec<String>,
}

impl KnownFindings {
    pub fn load(root: &Path) -> Self {
        match std::fs::read(root.join("known_findings.json")) {
            Ok(b) => serde_json::from_slice(&b).expect("known_findings.json is not valid"),
            Err(_) => KnownFindings::default(),
        }
    }
    pub fn lookup(&self, v: &Violation) -> Option<&KnownFinding> {
        self.findings.iter().find(|k| {
            k.property == v.property && k.clause == v.clause && v.fingerprint.contains(&k.pattern)
        })
    }
}

#[derive(Clone, Debug, Serialize, Deserialize)]
pub struct ReplayFile {
    pub property: String,
    pub clause: String,
    pub fingerprint: String,
    pub detail: String,
    pub seed: u64,
    pub index: usize,
    pub event_hash: String,
    pub minimised: bool,
    pub shrink_runs: usize,
    pub case: AnyCase,
    pub original_case: Option<AnyCase>,
}

pub struct CheckOutput {
    pub exit_code: i32,
}

fn verif_root() -> PathBuf {
    PathBuf::from(std::env::var("VERIF_ROOT").unwrap_or_else(|_| "/verif".into()))
}

struct Slot {
    idx: usize,
    report: RunReport,
    wall_us: u64,
}

/// Run `case` once in `dir`.
pub fn run_case(ctx: &Ctx, dir: &Path, case: &AnyCase) -> Result<RunReport, HarnessError> {
    case.run(ctx, dir)
}

/// Minimise `case` while a violation of the same class persists.
pub fn shrink(
    ctx: &Ctx,
    dir: &Path,
    case: &AnyCase,
    target: &Violation,
    max_runs: usize,
) -> (AnyCase, RunReport, usize) {
    let mut runs = 0usize;
    let mut cur = case.clone();
    let mut cur_report = match run_case(ctx, dir, &cur) {
        Ok(r) => r,
        Err(_) => RunReport::default(),
    };
    // make schedules explicit before shrinking
    if let Some(explicit) = cur.explicit(&cur_report) {
        if let Ok(r) = run_case(ctx, dir, &explicit) {
            runs += 1;
            if r.violations.iter().any(|v| v.same_class(target)) {
                cur = explicit;
                cur_report = r;
            }
        }
    }
    'outer: loop {
        if runs >= max_runs {
            break;
        }
        for cand in cur.shrink_candidates() {
            if runs >= max_runs {
                break 'outer;
            }
            runs += 1;
            if let Ok(r) = run_case(ctx, dir, &cand) {
                if r.violations.iter().any(|v| v.same_class(target)) {
                    // keep schedules explicit after every accepted step
                    let next = cand.explicit(&r).unwrap_or(cand);
                    cur = next;
                    cur_report = r;
                    continue 'outer;
                }
            }
            // A structural change invalidates a recorded schedule: search again for a
            // schedule under which the smaller scenario still fails (seeded, so repeatable).
            for k in 0..6u64 {
                let Some(re) = cand.reseeded(k) else { break };
                if runs >= max_runs {
                    break 'outer;
                }
                runs += 1;
                if let Ok(r) = run_case(ctx, dir, &re) {
                    if r.violations.iter().any(|v| v.same_class(target)) {
                        let next = re.explicit(&r).unwrap_or(re);
                        cur = next;
                        cur_report = r;
                        continue 'outer;
                    }
                }
            }
        }
        break;
    }
    (cur, cur_report, runs)
}

pub fn write_replay(root: &Path, rf: &ReplayFile) -> PathBuf {
    let dir = root.join("replays");
    std::fs::create_dir_all(&dir).expect("create replays dir");
    let mut h = Fnv::new();
    h.write(rf.fingerprint.as_bytes());
    h.write(rf.clause.as_bytes());
    let path = dir.join(format!(
        "{}-{}-{:08x}.json",
        rf.property,
        rf.seed,
        h.finish() as u32
    ));
    std::fs::write(&path, serde_json::to_vec_pretty(rf).unwrap()).expect("write replay file");
    path
}

/// `check <id> --replay FILE`: re-execute a replay file in a fresh process.
pub fn replay(ctx: &Ctx, path: &Path) -> i32 {
    let rf: ReplayFile = match std::fs::read(path)
        .map_err(|e| e.to_string())
        .and_then(|b| serde_json::from_slice(&b).map_err(|e| e.to_string()))
    {
        Ok(r) => r,
        Err(e) => {
            eprintln!("harness error: cannot load replay file: {e}");
            return 2;
        }
    };
    let dir = ctx.worker_dir(0);
    let r = match run_case(ctx, &dir, &rf.case) {
        Ok(r) => r,
        Err(e) => {
            eprintln!("harness error during replay: {}", e.0);
            return 2;
        }
    };
    let target = Violation::new(&rf.property, &rf.clause, rf.fingerprint.clone(), "");
    let hash = format!("{:016x}", r.event_hash);
    println!(
        "replay: property={} clause={} fingerprint={}",
        rf.property, rf.clause, rf.fingerprint
    );
    println!("replay: event_hash recorded={} now={}", rf.event_hash, hash);
    match r.violations.iter().find(|v| v.same_class(&target)) {
        Some(v) => {
            println!("replay: reproduced: {}", v.detail);
            if hash != rf.event_hash {
                eprintln!("harness error: violation reproduced but the event log differs (nondeterminism)");
                return 2;
            }
            println!(
                "VIOLATION property={} replay={}",
                rf.property,
                path.display()
            );
            1
        }
        None => {
            if r.violations.is_empty() {
                println!("replay: no violation on this tree (the recorded violation does not reproduce here)");
                0
            } else {
                println!("replay: a different violation occurred: {:?}", r.violations);
                println!(
                    "VIOLATION property={} replay={}",
                    rf.property,
                    path.display()
                );
                1
            }
        }
    }
}

#[allow(clippy::too_many_arguments)]
pub fn run_check(
    ctx: &Ctx,
    property: &str,
    level: &str,
    tier: &str,
    seed: u64,
    plan: &dyn Plan,
    threads: usize,
) -> CheckOutput {
    let t0 = Instant::now();
    let root = verif_root();
    let known = KnownFindings::load(&root);
    let full_total = plan.total();
    // VERIF_CASES=n: an evenly spaced sample of n case indices (used by the determinism self-test)
    let sample: Option<Vec<usize>> = std::env::var("VERIF_CASES")
        .ok()
        .and_then(|s| s.parse::<usize>().ok())
        .filter(|n| *n > 0 && *n < full_total)
        .map(|n| (0..n).map(|k| k * full_total / n).collect());
    // VERIF_ONLY=i,j,...: exactly these case indices (debugging aid)
    let sample = match std::env::var("VERIF_ONLY") {
        Ok(list) => Some(
            list.split(',')
                .filter_map(|t| t.trim().parse::<usize>().ok())
                .collect::<Vec<_>>(),
        ),
        Err(_) => sample,
    };
    let total = sample.as_ref().map(|s| s.len()).unwrap_or(full_total);
    let next = AtomicUsize::new(0);
    let slots: Mutex<Vec<Slot>> = Mutex::new(Vec::with_capacity(total));
    let harness_err: Mutex<Option<String>> = Mutex::new(None);
    let abort = AtomicBool::new(false);
    let reexec = AtomicUsize::new(0);
    let bad_cases = AtomicUsize::new(0);
    let over_wall = AtomicBool::new(false);
    let max_wall: u64 = std::env::var("VERIF_MAX_WALL").ok().and_then(|s| s.parse().ok()).unwrap_or(if tier == "quick" { 600 } else { 7200 });
    let timeouts = AtomicUsize::new(0);
    let stop_early = AtomicBool::new(false);

    println!("check {property}: VERIF_SEED={seed} tier={tier} cases={total} (enumerated {}) threads={threads}", plan.enumerated());

    std::thread::scope(|s| {
        for k in 0..threads {
            let next = &next;
            let slots = &slots;
            let harness_err = &harness_err;
            let abort = &abort;
            let reexec = &reexec;
            let sample = &sample;
            let bad_cases = &bad_cases;
            let over_wall = &over_wall;
            let timeouts = &timeouts;
            let stop_early = &stop_early;
            s.spawn(move || {
                let dir = ctx.worker_dir(k);
                loop {
                    if abort.load(Ordering::Relaxed) || stop_early.load(Ordering::Relaxed) {
                        break;
                    }
                    // wall-clock cap of a batch (a tree on which most scenarios run into the liveness
                    // bound is 100x slower than the unchanged one): sampling stops, what was explored
                    // is reported
                    if t0.elapsed().as_secs() > max_wall {
                        stop_early.store(true, Ordering::Relaxed);
                        over_wall.store(true, Ordering::Relaxed);
                        break;
                    }
                    let pos = next.fetch_add(1, Ordering::Relaxed);
                    if pos >= total {
                        break;
                    }
                    let idx = sample.as_ref().map(|s| s[pos]).unwrap_or(pos);
                    let case = plan.case(idx);
                    let t = Instant::now();
                    match run_case(ctx, &dir, &case) {
                        Ok(report) => {
                            let wall_us = t.elapsed().as_micros() as u64;
                            // determinism: re-execute 1 run in 64 and compare event logs
                            if idx % 64 == 5 {
                                match run_case(ctx, &dir, &case) {
                                    Ok(r2) if r2.event_hash == report.event_hash => {
                                        reexec.fetch_add(1, Ordering::Relaxed);
                                    }
                                    // a watchdog kill is a wall-clock event: a run that was killed once and
                                    // finished the other time says nothing about the simulator's determinism
                                    Ok(r2) if [&report, &r2].iter().any(|r| r.violations.iter().any(|v| v.fingerprint.contains("timeout"))) => {
                                        let _ = r2;
                                    }
                                    Ok(r2) => {
                                        *harness_err.lock().unwrap() = Some(format!(
                                            "nondeterminism: case {idx} gave event hash {:016x} then {:016x}",
                                            report.event_hash, r2.event_hash
                                        ));
                                        abort.store(true, Ordering::Relaxed);
                                    }
                                    Err(e) => {
                                        *harness_err.lock().unwrap() = Some(format!("case {idx} (re-run): {}", e.0));
                                        abort.store(true, Ordering::Relaxed);
                                    }
                                }
                            }
                            let violating = report.violations.iter().any(|v| v.property == property);
                            // every watchdog kill costs 10 s of wall-clock: a tree on which many simulated
                            // processes hang is not sampled to the end either
                            if report.violations.iter().any(|v| v.clause == "hang" && v.fingerprint.contains("timeout"))
                                && timeouts.fetch_add(1, Ordering::Relaxed) + 1 >= 32
                            {
                                stop_early.store(true, Ordering::Relaxed);
                            }
                            // keep written-out histories for a handful of cases only (a thorough
                            // batch has a million of them)
                            let mut report = report;
                            if report.violations.is_empty() && idx >= 16 && idx % 4099 != 0 {
                                report.history = Value::Null;
                                report.explicit_choices = None;
                            }
                            slots.lock().unwrap().push(Slot { idx, report, wall_us });
                            // A tree on which dozens of cases already fail needs no further sampling
                            // (and hanging mutants would otherwise cost 10 s per remaining case).
                            if violating && bad_cases.fetch_add(1, Ordering::Relaxed) + 1 >= 48 {
                                stop_early.store(true, Ordering::Relaxed);
                            }
                        }
                        Err(e) => {
                            *harness_err.lock().unwrap() = Some(format!("case {idx}: {}", e.0));
                            abort.store(true, Ordering::Relaxed);
                        }
                    }
                }
            });
        }
    });

    if let Some(e) = harness_err.lock().unwrap().take() {
        eprintln!("harness error: {e}");
        return CheckOutput { exit_code: 2 };
    }

    let mut slots = slots.into_inner().unwrap();
    slots.sort_by_key(|s| s.idx);
    if stop_early.load(Ordering::Relaxed) {
        // keep the completed prefix only, so that what is reported does not depend on which
        // in-flight cases happened to finish
        let mut frontier = 0usize;
        for (pos, s) in slots.iter().enumerate() {
            let expect = sample.as_ref().map(|v| v[pos]).unwrap_or(pos);
            if s.idx != expect {
                break;
            }
            frontier = pos + 1;
        }
        slots.truncate(frontier);
        if over_wall.load(Ordering::Relaxed) {
            println!("stopped after {} of {total} cases: the batch exceeded its wall-clock cap of {max_wall} s (VERIF_MAX_WALL)", slots.len());
        } else {
            println!("stopped early after {} cases: at least 48 of them violate {property} or at least 32 simulated processes hung", slots.len());
        }
    }
    if let Ok(path) = std::env::var("VERIF_DUMP_HASHES") {
        let mut out = String::new();
        for s in &slots {
            out.push_str(&format!("{} {:016x}\n", s.idx, s.report.event_hash));
        }
        std::fs::write(path, out).expect("dump hashes");
    }

    // ---- aggregate --------------------------------------------------------
    let mut faults: BTreeMap<String, (u64, u64, u64)> = BTreeMap::new(); // configured runs, fired runs, fired total
    let mut probes: BTreeMap<String, u64> = BTreeMap::new();
    let mut shapes: BTreeSet<u64> = BTreeSet::new();
    let mut schedules: BTreeSet<u64> = BTreeSet::new();
    let mut procs = 0u64;
    let mut sched_steps = 0u64;
    let mut syscalls = 0u64;
    let mut cross = 0u64;
    let mut fault_free = 0u64;
    let mut faulty = 0u64;
    let mut samples: Vec<Value> = Vec::new();
    let mut busy_us = 0u64;
    let mut all_viol: Vec<(usize, Violation)> = Vec::new();
    for s in &slots {
        let r = &s.report;
        for (k, (c, f)) in &r.faults {
            let e = faults.entry(k.clone()).or_insert((0, 0, 0));
            if *c > 0 {
                e.0 += 1;
            }
            if *f > 0 {
                e.1 += 1;
            }
            e.2 += *f;
        }
        for (k, v) in &r.probes {
            let e = probes.entry(k.clone()).or_insert(0);
            if k.starts_with("max_") {
                *e = (*e).max(*v);
            } else {
                *e += *v;
            }
        }
        if r.nontrivial {
            shapes.insert(r.shape);
        }
        if let Some(id) = r.schedule_id {
            schedules.insert(id);
        }
        procs += r.procs;
        sched_steps += r.sched_steps;
        syscalls += r.syscalls;
        cross += r.cross_validated;
        if r.fault_free {
            fault_free += 1;
        } else {
            faulty += 1;
        }
        busy_us += s.wall_us;
        if samples.len() < 3 && !r.history.is_null() && r.nontrivial {
            samples.push(json!({"index": s.idx, "event_hash": format!("{:016x}", r.event_hash), "history": r.history}));
        }
        for v in &r.violations {
            if v.property == property {
                all_viol.push((s.idx, v.clone()));
            }
        }
    }
    if samples.is_empty() {
        if let Some(s) = slots.first() {
            samples.push(json!({"index": s.idx, "event_hash": format!("{:016x}", s.report.event_hash), "history": s.report.history}));
        }
    }

    // ---- triage -----------------------------------------------------------
    let mut known_hit: BTreeMap<String, (String, usize, usize)> = BTreeMap::new();
    let mut unknown: Vec<(usize, Violation)> = Vec::new();
    for (idx, v) in &all_viol {
        match known.lookup(v) {
            Some(k) => {
                let e = known_hit
                    .entry(format!("{}|{}", k.clause, k.pattern))
                    .or_insert((k.what.clone(), *idx, 0));
                e.2 += 1;
            }
            None => unknown.push((*idx, v.clone())),
        }
    }
    for (key, (what, idx, n)) in &known_hit {
        println!("KNOWN-FINDING: property={property} {what} [{key}; first case {idx}; seen {n}x]");
    }

    let mut exit_code = 0;
    let mut reported: Vec<Value> = Vec::new();
    if !unknown.is_empty() {
        exit_code = 1;
        // one report per distinct class, lowest case index first
        let mut classes: Vec<(usize, Violation)> = Vec::new();
        for (idx, v) in &unknown {
            if !classes.iter().any(|(_, c)| c.same_class(v)) {
                classes.push((*idx, v.clone()));
            }
        }
        for (idx, v) in &classes {
            let n = unknown.iter().filter(|(_, u)| u.same_class(v)).count();
            println!(
                "class: clause={} fingerprint={} first_case={} count={} :: {}",
                v.clause, v.fingerprint, idx, n, v.detail
            );
        }
        let dir = ctx.worker_dir(0);
        for (idx, v) in classes.iter().take(4) {
            let case = plan.case(*idx);
            let (min_case, min_report, runs) = shrink(
                ctx,
                &dir,
                &case,
                v,
                if tier == "quick" { 400 } else { 1200 },
            );
            let detail = min_report
                .violations
                .iter()
                .find(|x| x.same_class(v))
                .map(|x| x.detail.clone())
                .unwrap_or_else(|| v.detail.clone());
            let rf = ReplayFile {
                property: v.property.clone(),
                clause: v.clause.clone(),
                fingerprint: v.fingerprint.clone(),
                detail: detail.clone(),
                seed,
                index: *idx,
                event_hash: format!("{:016x}", min_report.event_hash),
                minimised: runs > 0,
                shrink_runs: runs,
                case: min_case,
                original_case: Some(case),
            };
            let path = write_replay(&root, &rf);
            println!(
                "violation: clause={} fingerprint={} case={} :: {}",
                v.clause, v.fingerprint, idx, detail
            );
            println!("VIOLATION property={} replay={}", property, path.display());
            reported.push(json!({"clause": v.clause, "fingerprint": v.fingerprint, "detail": detail, "replay": path.display().to_string(), "case_index": idx}));
        }
        if classes.len() > 4 {
            println!(
                "({} further violation classes not minimised)",
                classes.len() - 4
            );
        }
    }

    // ---- evidence ---------------------------------------------------------
    let wall = t0.elapsed().as_secs_f64();
    let evaluations = slots.len() as u64;
    let per_hour = |n: u64| {
        if wall > 0.0 {
            (n as f64 / wall * 3600.0) as u64
        } else {
            0
        }
    };
    let faults_json: serde_json::Map<String, Value> = faults
        .iter()
        .map(|(k, (c, fr, ft))| {
            (
                k.clone(),
                json!({"configured_in_runs": c, "fired_in_runs": fr, "fired_total": ft}),
            )
        })
        .collect();
    let stuck: Vec<String> = plan
        .required_probes()
        .into_iter()
        .filter(|p| probes.get(p).copied().unwrap_or(0) == 0)
        .collect();
    let distinct = shapes.len() as u64;
    let evidence = json!({
        "property_id": property,
        "tier": tier,
        "seed": seed,
        "level": level,
        "coverage": {
            "evaluations": evaluations,
            "distinct_nontrivial": distinct,
            "rule": plan.rule(),
            "samples": samples,
            "enumerated_cases": slots.iter().filter(|s| s.idx < plan.enumerated()).count(),
            "seeded_cases": slots.iter().filter(|s| s.idx >= plan.enumerated()).count(),
            "simulated_processes": procs,
            "runs_per_hour": per_hour(evaluations),
            "seeds_per_hour": per_hour(slots.iter().filter(|s| s.idx >= plan.enumerated()).count() as u64),
            "simulated_processes_per_hour": per_hour(procs),
            "simulated_time": "not applicable: the code under test has no clock, timer or deadline; coverage is in logical steps",
            "logical_steps": {"scheduler_decisions": sched_steps, "simulated_syscalls": syscalls},
            "distinct_interleavings": schedules.len(),
            "distinct_interleavings_measure": "distinct hashes over the whole sequence of (runnable task set, chosen task) pairs of a run, counted over runs in which at least one decision had more than one runnable task (engines E2 and E3)",
            "fault_kinds": Value::Object(faults_json),
            "runs_fault_free": fault_free,
            "runs_with_fault_configured": faulty,
            "reach_probes": probes,
            "required_probes_stuck_at_zero": stuck,
            "determinism_reexecutions_equal": reexec.load(Ordering::Relaxed),
            "watchdog_timeouts_not_confirmed_on_rerun": crate::exec::SPURIOUS_TIMEOUTS.load(Ordering::Relaxed),
            "traces_validated_against_impl": cross,
            "components": plan.components(),
            "known_findings_observed": known_hit.iter().map(|(k, (w, _, n))| json!({"key": k, "what": w, "count": n})).collect::<Vec<_>>(),
            "violations_reported": reported,
            "worker_threads": threads,
            "cpu_busy_s": busy_us as f64 / 1e6,
        },
        "assumptions": plan.assumptions(),
        "wall_s": (wall * 1000.0).round() / 1000.0,
        "violations": unknown.len(),
    });
    let ev_dir = root.join("evidence");
    std::fs::create_dir_all(&ev_dir).expect("create evidence dir");
    let ev_path = ev_dir.join(format!("{property}.json"));
    if std::env::var("VERIF_SHOW").is_ok() {
        for s in &slots {
            println!(
                "case {}: {}",
                s.idx,
                serde_json::to_string(&plan.case(s.idx)).unwrap()
            );
            println!(
                "history {}: {}",
                s.idx,
                serde_json::to_string(&s.report.history).unwrap()
            );
        }
    }
    if sample.is_none() && full_total == total {
        std::fs::write(&ev_path, serde_json::to_vec_pretty(&evidence).unwrap())
            .expect("write evidence");
    } else {
        println!("(sampled self-test run: evidence file not rewritten)");
    }

    println!(
        "check {property}: {evaluations} cases, {procs} simulated processes, {distinct} distinct non-trivial, {} violations ({} known-finding hits), {:.1}s; evidence {}",
        unknown.len(),
        all_viol.len() - unknown.len(),
        wall,
        ev_path.display()
    );
    if distinct < 2 {
        eprintln!("harness error: fewer than 2 distinct non-trivial cases");
        return CheckOutput { exit_code: 2 };
    }
    CheckOutput { exit_code }
}
