//! Case types. A case is plain data (serialisable, hence replayable) that
//! knows how to execute itself on the simulator and judge the resulting
//! history.

pub mod acctcase;
pub mod c17plan;
pub mod crashcase;
pub mod hexcase;
pub mod iogen;
pub mod libcase;
pub mod newcase;
pub mod newplans;

use crate::exec::{Ctx, HarnessError};
use crate::framework::RunReport;
use serde::{Deserialize, Serialize};
use std::path::Path;

#[derive(Clone, Debug, Serialize, Deserialize)]
pub enum AnyCase {
    Hex(hexcase::HexCase),
    New(newcase::NewCase),
    Crash(crashcase::CrashCase),
    Acct(acctcase::AcctCase),
    Lib(libcase::LibCase),
}

impl AnyCase {
    pub fn run(&self, ctx: &Ctx, dir: &Path) -> Result<RunReport, HarnessError> {
        match self {
            AnyCase::Hex(c) => c.run(ctx, dir),
            AnyCase::New(c) => c.run(ctx, dir),
            AnyCase::Crash(c) => c.run(ctx, dir),
            AnyCase::Acct(c) => c.run(ctx, dir),
            AnyCase::Lib(c) => c.run(ctx, dir),
        }
    }

    /// The same case with every simulator decision spelled out (recorded
    /// schedule instead of a scheduler seed), if it is not explicit already.
    pub fn explicit(&self, report: &RunReport) -> Option<AnyCase> {
        match self {
            AnyCase::Hex(_) | AnyCase::Crash(_) | AnyCase::Acct(_) => None,
            AnyCase::New(c) => c.explicit(report).map(AnyCase::New),
            AnyCase::Lib(c) => c.explicit(report).map(AnyCase::Lib),
        }
    }

    /// The same scenario under a freshly seeded scheduler (E2 cases whose
    /// schedule is an explicit trace), for re-searching after a structural shrink.
    pub fn reseeded(&self, k: u64) -> Option<AnyCase> {
        match self {
            AnyCase::New(c) => c.reseeded(k).map(AnyCase::New),
            AnyCase::Lib(c) => c.reseeded(k).map(AnyCase::Lib),
            _ => None,
        }
    }

    /// Strictly simpler variants, most aggressive first.
    pub fn shrink_candidates(&self) -> Vec<AnyCase> {
        match self {
            AnyCase::Hex(c) => c
                .shrink_candidates()
                .into_iter()
                .map(AnyCase::Hex)
                .collect(),
            AnyCase::New(c) => c
                .shrink_candidates()
                .into_iter()
                .map(AnyCase::New)
                .collect(),
            AnyCase::Crash(c) => c
                .shrink_candidates()
                .into_iter()
                .map(AnyCase::Crash)
                .collect(),
            AnyCase::Acct(c) => c
                .shrink_candidates()
                .into_iter()
                .map(AnyCase::Acct)
                .collect(),
            AnyCase::Lib(c) => c
                .shrink_candidates()
                .into_iter()
                .map(AnyCase::Lib)
                .collect(),
        }
    }
}
