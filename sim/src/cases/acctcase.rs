//! C16: every account command, run as a small session of simulated
//! processes: the same command with its input arriving from a file, from
//! stdin in one piece, from stdin under a benign delivery plan and under one
//! hard read error; with the account options given as flags, through the
//! environment, or mixed. All benign variants must print byte-identical
//! output, which must be the reference wallet's answer.

use super::crashcase::{gen_transaction, gen_typed_data};
use super::iogen::{self, benign_plan, with_hard_error};
use super::newcase::{gen_password, gen_selector};
use crate::exec::{
    exec, hexbytes, panic_fingerprint, Cmd, Ctx, HarnessError, IoStep, NamedFile, Outcome, Status,
};
use crate::framework::{Plan, RunReport};
use crate::prng::{run_seed, Fnv, Rng};
use crate::refmodel::{self as rm, PathComp};
use serde::{Deserialize, Serialize};
use serde_json::{json, Value};
use std::path::Path;

#[derive(Clone, Debug, Serialize, Deserialize, PartialEq, Eq)]
pub enum Op {
    Address,
    Export,
    PublicKey,
    SignMessage,
    SignRaw {
        digest: String,
    },
    SignTx {
        signature_only: bool,
    },
    SignTyped,
    HashData,
    HashMessage,
    HashTyped,
    /// both selectors at once: must be refused by usage error
    Conflict,
    /// an invocation spelled out in full that must be refused (non-zero status, nothing on
    /// stdout): both selectors in an unusual placement, or a selector that is no selector
    Refuse {
        argv: Vec<String>,
        env: Vec<(String, String)>,
        why: String,
    },
}

impl Op {
    fn has_input(&self) -> bool {
        !matches!(
            self,
            Op::Address | Op::Export | Op::PublicKey | Op::SignRaw { .. } | Op::Conflict
        )
    }
    fn needs_account(&self) -> bool {
        !matches!(self, Op::HashData | Op::HashMessage | Op::HashTyped)
    }
    fn name(&self) -> &'static str {
        match self {
            Op::Address => "address",
            Op::Export => "export",
            Op::PublicKey => "public-key",
            Op::SignMessage => "sign message",
            Op::SignRaw { .. } => "sign raw",
            Op::SignTx {
                signature_only: true,
            } => "sign transaction --signature-only",
            Op::SignTx {
                signature_only: false,
            } => "sign transaction",
            Op::SignTyped => "sign typeddata",
            Op::HashData => "hash data",
            Op::HashMessage => "hash message",
            Op::HashTyped => "hash typeddata",
            Op::Conflict => "conflict",
            Op::Refuse { .. } => "refuse",
        }
    }
}

/// How one execution of the command differs from the base execution.
#[derive(Clone, Debug, Serialize, Deserialize, PartialEq, Eq)]
pub struct Variant {
    /// bit 0: mnemonic, bit 1: password, bit 2: selector — set = through the environment
    pub env_mask: u8,
    pub stdin: bool,
    pub rplan: Vec<IoStep>,
    pub wplan: Vec<IoStep>,
    /// the input arrives through a pipe: with `stdin` as "-", otherwise as the path /dev/stdin
    /// (a non-regular file: size 0, not seekable)
    #[serde(default)]
    pub pipe: bool,
}

#[derive(Clone, Debug, Serialize, Deserialize, PartialEq, Eq)]
pub struct AcctCase {
    pub phrase: String,
    pub password: Option<String>,
    pub account_index: Option<String>,
    pub hd_path: Option<String>,
    /// the account the options select, for the reference wallet
    pub path: Vec<PathComp>,
    pub op: Op,
    #[serde(with = "hexbytes")]
    pub input: Vec<u8>,
    /// variants[0] is the base execution (flags, file or no input, no plan)
    pub variants: Vec<Variant>,
}

fn parse_sig(s: &str) -> Option<([u8; 32], [u8; 32], u8)> {
    let h = s.strip_prefix("0x")?;
    if h.len() != 130 || h.bytes().any(|b| b.is_ascii_uppercase()) {
        return None;
    }
    let b = hex::decode(h).ok()?;
    Some((b[..32].try_into().ok()?, b[32..64].try_into().ok()?, b[64]))
}

fn parse_digest(s: &str) -> Option<[u8; 32]> {
    let h = s.strip_prefix("0x")?;
    if h.len() != 64 {
        return None;
    }
    hex::decode(h).ok()?.try_into().ok()
}

/// Minimal RLP reader: the payload items of a top-level list.
fn rlp_list_items(mut data: &[u8]) -> Option<Vec<Vec<u8>>> {
    fn header(d: &[u8]) -> Option<(bool, usize, usize)> {
        let b = *d.first()?;
        match b {
            0x00..=0x7f => Some((false, 0, 1)),
            0x80..=0xb7 => Some((false, 1, (b - 0x80) as usize)),
            0xb8..=0xbf => {
                let ll = (b - 0xb7) as usize;
                let mut n = 0usize;
                for x in d.get(1..1 + ll)? {
                    n = (n << 8) | *x as usize;
                }
                Some((false, 1 + ll, n))
            }
            0xc0..=0xf7 => Some((true, 1, (b - 0xc0) as usize)),
            _ => {
                let ll = (b - 0xf7) as usize;
                let mut n = 0usize;
                for x in d.get(1..1 + ll)? {
                    n = (n << 8) | *x as usize;
                }
                Some((true, 1 + ll, n))
            }
        }
    }
    let (is_list, off, len) = header(data)?;
    if !is_list || off + len != data.len() {
        return None;
    }
    data = &data[off..];
    let mut items = Vec::new();
    while !data.is_empty() {
        let (l, off, len) = header(data)?;
        let total = if !l && off == 0 { 1 } else { off + len };
        let item = data.get(..total)?;
        // payload of a string item, raw encoding of a nested list
        items.push(if l {
            item.to_vec()
        } else if off == 0 {
            item.to_vec()
        } else {
            item[off..].to_vec()
        });
        data = &data[total..];
    }
    Some(items)
}

fn pad32(b: &[u8]) -> Option<[u8; 32]> {
    if b.len() > 32 {
        return None;
    }
    let mut out = [0u8; 32];
    out[32 - b.len()..].copy_from_slice(b);
    Some(out)
}

impl AcctCase {
    fn build(&self, v: &Variant, op: &Op) -> Cmd {
        let mut cmd = Cmd::default();
        if let Op::Refuse { argv, env, .. } = op {
            cmd.argv = argv.clone();
            cmd.env = env.clone();
            cmd.wplan = v.wplan.clone();
            return cmd;
        }
        let words: Vec<&str> = match op {
            Op::Address => vec!["address"],
            Op::Export => vec!["export"],
            Op::PublicKey => vec!["public-key"],
            Op::Conflict => vec!["address"],
            Op::Refuse { .. } => vec![],
            Op::SignMessage | Op::SignRaw { .. } | Op::SignTx { .. } | Op::SignTyped => {
                vec!["sign"]
            }
            Op::HashData | Op::HashMessage | Op::HashTyped => vec!["hash"],
        };
        cmd.argv.extend(words.iter().map(|s| s.to_string()));
        if op.needs_account() {
            let mut opt = |bit: u8, flag: &str, env: &str, val: &Option<String>| {
                if let Some(val) = val {
                    if v.env_mask & bit != 0 {
                        cmd.env.push((env.to_string(), val.clone()));
                    } else {
                        cmd.argv.push(flag.to_string());
                        cmd.argv.push(val.clone());
                    }
                }
            };
            opt(1, "--mnemonic", "MNEMONIC", &Some(self.phrase.clone()));
            opt(2, "--password", "PASSWORD", &self.password);
            if *op == Op::Conflict {
                // the two selectors, one through each channel according to the mask bits 2 and 3
                opt(
                    4,
                    "--account-index",
                    "ACCOUNT_INDEX",
                    &Some(self.account_index.clone().unwrap_or_else(|| "1".into())),
                );
                opt(
                    8,
                    "--hd-path",
                    "HD_PATH",
                    &Some(
                        self.hd_path
                            .clone()
                            .unwrap_or_else(|| "m/44'/60'/0'/0/1".into()),
                    ),
                );
            } else {
                opt(4, "--account-index", "ACCOUNT_INDEX", &self.account_index);
                opt(4, "--hd-path", "HD_PATH", &self.hd_path);
            }
        }
        match op {
            Op::SignMessage => cmd.argv.push("message".into()),
            Op::SignRaw { digest } => {
                cmd.argv.push("raw".into());
                cmd.argv.push(digest.clone());
            }
            Op::SignTx { signature_only } => {
                cmd.argv.push("transaction".into());
                if *signature_only {
                    cmd.argv.push("--signature-only".into());
                }
                cmd.argv.push("--allow-missing-relay-protection".into());
            }
            Op::SignTyped => cmd.argv.push("typeddata".into()),
            Op::HashData => cmd.argv.push("data".into()),
            Op::HashMessage => cmd.argv.push("message".into()),
            Op::HashTyped => cmd.argv.push("typeddata".into()),
            _ => {}
        }
        if op.has_input() {
            if v.stdin {
                cmd.argv.push("-".into());
                cmd.stdin = Some(self.input.clone());
                cmd.stdin_pipe = v.pipe;
                cmd.rplan = v.rplan.clone();
            } else if v.pipe {
                cmd.argv.push("/dev/stdin".into());
                cmd.stdin = Some(self.input.clone());
                cmd.stdin_pipe = true;
                // the shim applies the R plan to every descriptor that names fd 0's pipe
                cmd.rplan = v.rplan.clone();
            } else {
                cmd.argv.push("input.dat".into());
                cmd.files.push(NamedFile {
                    name: "input.dat".into(),
                    data: self.input.clone(),
                });
                cmd.fplan = v.rplan.clone();
            }
        }
        cmd.wplan = v.wplan.clone();
        cmd
    }

    /// The digest the matching `hash` sub-command prints for this case's input.
    fn hash_digest(
        &self,
        ctx: &Ctx,
        dir: &Path,
        rep: &mut RunReport,
        eh: &mut Fnv,
        extra: &[&str],
    ) -> Result<Option<[u8; 32]>, HarnessError> {
        let hop = match self.op {
            Op::SignMessage => Op::HashMessage,
            Op::SignTx { .. } => Op::HashData, // placeholder, replaced below
            Op::SignTyped | Op::HashTyped => Op::HashTyped,
            _ => return Ok(None),
        };
        let base = Variant {
            env_mask: 0,
            stdin: false,
            rplan: vec![],
            wplan: vec![],
            pipe: false,
        };
        let mut cmd = self.build(&base, &hop);
        if matches!(self.op, Op::SignTx { .. }) {
            cmd.argv = vec!["hash".into(), "transaction".into(), "input.dat".into()];
        }
        for e in extra {
            cmd.argv.insert(cmd.argv.len() - 1, e.to_string());
        }
        let o = exec(ctx, dir, &cmd)?;
        eh.write_u64(o.event_hash());
        rep.procs += 1;
        if !o.status.ok() {
            return Ok(None);
        }
        Ok(parse_digest(o.stdout_str().trim_end_matches('\n')))
    }

    pub fn run(&self, ctx: &Ctx, dir: &Path) -> Result<RunReport, HarnessError> {
        let mut rep = RunReport::default();
        for p in [
            "input_through_pipe",
            "hard_error_fired",
            "env_variant_run",
            "stdin_plan_variant_run",
            "nonzero_account_index",
            "explicit_hd_path",
            "nonascii_password",
            "input_rejected_consistently",
        ] {
            rep.probe(p, false);
        }
        let mut eh = Fnv::new();
        let mut sh = Fnv::new();
        sh.write(serde_json::to_string(self).unwrap().as_bytes());
        rep.shape = sh.finish();
        rep.fault_free = !self.variants.iter().any(|v| iogen::has_hard(&v.rplan));
        rep.probe(
            "nonzero_account_index",
            self.account_index
                .as_deref()
                .map(|i| i != "0")
                .unwrap_or(false),
        );
        rep.probe("explicit_hd_path", self.hd_path.is_some());
        rep.probe(
            "nonascii_password",
            self.password
                .as_deref()
                .map(|p| !p.is_ascii())
                .unwrap_or(false),
        );
        let opname = self.op.name();
        let mut hist: Vec<Value> = Vec::new();

        let acct = rm::account(
            &self.phrase,
            self.password.as_deref().unwrap_or(""),
            &self.path,
        );
        let Some(acct) = acct else {
            return Err(HarnessError(
                "reference wallet could not derive the account".into(),
            ));
        };

        let mut base_out: Option<Outcome> = None;
        for (vi, v) in self.variants.iter().enumerate() {
            let cmd = self.build(v, &self.op);
            let o = exec(ctx, dir, &cmd)?;
            eh.write_u64(o.event_hash());
            rep.procs += 1;
            let rt = if v.stdin { 'R' } else { 'F' };
            let f = iogen::fired(&o.io, rt);
            let fw = iogen::fired(&o.io, 'W');
            let (c, e, h) = iogen::configured(&v.rplan);
            let nm = if v.stdin { "stdin" } else { "file" };
            rep.fault(&format!("{nm}_short_read"), c, f.short);
            rep.fault(&format!("{nm}_eintr"), e, f.eintr);
            rep.fault(&format!("{nm}_hard_error"), h, f.hard);
            let (c, e, _) = iogen::configured(&v.wplan);
            rep.fault("stdout_short_write", c, fw.short);
            rep.fault("stdout_eintr", e, fw.eintr);
            rep.fault(
                "options_through_environment",
                (v.env_mask != 0) as u64,
                (v.env_mask != 0 && self.op.needs_account()) as u64,
            );
            rep.syscalls += f.calls + fw.calls;
            if f.short + f.eintr + f.hard + fw.short + fw.eintr > 0
                || (v.env_mask != 0 && self.op.needs_account())
            {
                rep.nontrivial = true;
            }
            rep.probe(
                "env_variant_run",
                v.env_mask != 0 && self.op.needs_account(),
            );
            rep.probe("input_through_pipe", v.pipe && self.op.has_input());
            rep.probe(
                "dev_stdin_pipe_delivered_in_pieces",
                v.pipe && !v.stdin && self.op.has_input() && o.io.iter().filter(|e| e.tag == 'R').count() >= 2,
            );
            rep.probe("stdin_plan_variant_run", v.stdin && !v.rplan.is_empty());
            hist.push(json!({
                "variant": vi, "argv": cmd.argv.iter().map(|a| a.chars().take(120).collect::<String>()).collect::<Vec<_>>(),
                "env": cmd.env.iter().map(|(k, _)| k.clone()).collect::<Vec<_>>(),
                "channel": if !self.op.has_input() { "none" } else if v.stdin && v.pipe { "stdin (pipe)" } else if v.stdin { "stdin" } else if v.pipe { "/dev/stdin (pipe)" } else { "file" },
                "read_plan_steps": v.rplan.len(), "write_plan_steps": v.wplan.len(),
                "status": format!("{:?}", o.status), "stdout": o.stdout_str().chars().take(140).collect::<String>(),
            }));

            if matches!(o.status, Status::Exit(101) | Status::Signal(_)) {
                let (loc, msg) = o.panic_site().unwrap_or_default();
                rep.violate(
                    "C17",
                    "panic",
                    format!("{}|{}", panic_fingerprint(&loc, &msg), opname),
                    format!("`{}`: {:?} {msg} at {loc}", cmd.argv.join(" "), o.status),
                );
            }
            if o.status == Status::Timeout {
                rep.violate(
                    "C17",
                    "hang",
                    format!("{opname}|timeout"),
                    format!(
                        "`{}`: still running after the wall-clock limit",
                        cmd.argv.join(" ")
                    ),
                );
            }

            if let Op::Refuse { why, .. } = &self.op {
                if o.status.ok() || !o.stdout.is_empty() {
                    rep.violate(
                        "C16",
                        why,
                        format!("refuse|{}", cmd.argv.first().cloned().unwrap_or_default()),
                        format!(
                            "`{}` (env {:?}) must be refused, yet status {:?}, stdout {:?}",
                            cmd.argv.join(" ").chars().take(400).collect::<String>(),
                            cmd.env.iter().filter(|(k, _)| k != "MNEMONIC").collect::<Vec<_>>(),
                            o.status,
                            o.stdout_str()
                        ),
                    );
                }
                rep.nontrivial = true;
                continue;
            }
            if self.op == Op::Conflict {
                if o.status.ok() || !o.stdout.is_empty() {
                    rep.violate(
                        "C16",
                        "selectors-combined",
                        format!("conflict|mask{}", v.env_mask >> 2),
                        format!("both --account-index and --hd-path given (env mask {:04b}): status {:?}, stdout {:?}", v.env_mask, o.status, o.stdout_str()),
                    );
                }
                continue;
            }

            if iogen::hard_fired(&o.io, rt) {
                rep.probe("hard_error_fired", true);
                if o.status.ok() || !o.stdout.is_empty() {
                    rep.violate(
                        "C16",
                        "output-after-read-error",
                        opname,
                        format!("`{opname}`: read error injected on {nm}, yet status {:?} and stdout {:?}", o.status, o.stdout_str()),
                    );
                }
                continue;
            }

            match &base_out {
                None => base_out = Some(o),
                Some(b) => {
                    if b.status != o.status || b.stdout != o.stdout {
                        let what = if v.env_mask != 0 && self.op.needs_account() {
                            "environment-vs-flags"
                        } else {
                            "input-channel"
                        };
                        rep.violate(
                            "C16",
                            what,
                            opname,
                            format!(
                                "`{opname}`: variant {vi} (env mask {:03b}, {}, {} read-plan steps) gives {:?} {:?}, the base execution gave {:?} {:?}",
                                v.env_mask,
                                if v.stdin { "stdin" } else { "file" },
                                v.rplan.len(),
                                o.status,
                                o.stdout_str(),
                                b.status,
                                b.stdout_str()
                            ),
                        );
                    }
                }
            }
        }

        // ---- the base output against the reference wallet ---------------------------------
        if let Some(b) = &base_out {
            let out = b.stdout_str();
            let line = out.trim_end_matches('\n').to_string();
            let one_line = out.ends_with('\n') && out.matches('\n').count() == 1;
            let wrong = |rep: &mut RunReport, clause: &str, detail: String| {
                rep.violate("C16", clause, opname, detail);
            };
            match &self.op {
                Op::Address | Op::Export | Op::PublicKey => {
                    let want = match self.op {
                        Op::Address => rm::eip55(&acct.address),
                        Op::Export => format!("0x{}", hex::encode(acct.secret)),
                        _ => format!("0x{}", hex::encode(acct.public)),
                    };
                    if !b.status.ok() || !one_line || line != want {
                        wrong(
                            &mut rep,
                            "wrong-account-output",
                            format!(
                                "`{opname}` for {} (password {:?}): status {:?}, stdout {:?}, reference {want}",
                                rm::path_to_string(&self.path),
                                self.password,
                                b.status,
                                out
                            ),
                        );
                    }
                }
                Op::SignRaw { digest } => {
                    let d = parse_digest(digest).expect("generated digest");
                    self.check_sig(&mut rep, b, &line, one_line, &d, &acct.address, "sign raw");
                }
                Op::SignMessage
                | Op::SignTyped
                | Op::SignTx {
                    signature_only: true,
                } => {
                    let d = self.hash_digest(ctx, dir, &mut rep, &mut eh, &[])?;
                    match (d, b.status.ok()) {
                        (Some(d), true) => self.check_sig(&mut rep, b, &line, one_line, &d, &acct.address, opname),
                        (None, false) => rep.probe("input_rejected_consistently", true),
                        (d, ok) => wrong(
                            &mut rep,
                            "sign-hash-disagree-on-validity",
                            format!("`{opname}` status ok={ok} but the matching hash command gave digest {:?}", d.map(hex::encode)),
                        ),
                    }
                }
                Op::SignTx {
                    signature_only: false,
                } => {
                    let d = self.hash_digest(ctx, dir, &mut rep, &mut eh, &[])?;
                    match (d, b.status.ok()) {
                        (Some(d), true) => {
                            let ok = (|| {
                                let raw = hex::decode(line.strip_prefix("0x")?).ok()?;
                                let body: &[u8] = if matches!(raw.first(), Some(1) | Some(2)) { &raw[1..] } else { &raw };
                                let typed = body.len() != raw.len();
                                let items = rlp_list_items(body)?;
                                let n = items.len();
                                if n < 3 {
                                    return None;
                                }
                                let v = &items[n - 3];
                                let r = pad32(&items[n - 2])?;
                                let s = pad32(&items[n - 1])?;
                                let y_odd = if typed {
                                    match v.as_slice() {
                                        [] | [0] => false,
                                        [1] => true,
                                        _ => return None,
                                    }
                                } else {
                                    // 27/28 or 35 + 2*chain + parity: parity is the low bit of (v - 27) resp. (v - 35)
                                    let last = *v.last()?;
                                    let small = v.len() == 1 && (last == 27 || last == 28);
                                    if small {
                                        last == 28
                                    } else {
                                        (last & 1) == 0 // v = 35 + 2c + p  =>  p = (v - 35) mod 2 = (v+1) mod 2
                                    }
                                };
                                let got = rm::recover(&d, &r, &s, y_odd)?;
                                Some(got == acct.address)
                            })();
                            if ok != Some(true) {
                                wrong(
                                    &mut rep,
                                    "signed-transaction-not-by-account",
                                    format!("`sign transaction`: the v,r,s in {line:?} do not recover {} over the digest `hash transaction` prints (0x{})", rm::eip55(&acct.address), hex::encode(d)),
                                );
                            }
                        }
                        (None, false) => rep.probe("input_rejected_consistently", true),
                        (d, ok) => wrong(
                            &mut rep,
                            "sign-hash-disagree-on-validity",
                            format!("`sign transaction` status ok={ok} but `hash transaction` gave {:?}", d.map(hex::encode)),
                        ),
                    }
                }
                Op::HashData => {
                    let want = format!("0x{}", hex::encode(rm::keccak256(&self.input)));
                    if !b.status.ok() || !one_line || line != want {
                        wrong(&mut rep, "hash-data", format!("`hash data` of {} bytes: status {:?}, stdout {:?}, Keccak-256 is {want}", self.input.len(), b.status, out));
                    }
                }
                Op::HashMessage => {
                    // the digest itself is C10's subject; here only that it is one well-formed line
                    if !b.status.ok() || !one_line || parse_digest(&line).is_none() {
                        wrong(
                            &mut rep,
                            "hash-output-format",
                            format!("`hash message`: status {:?}, stdout {:?}", b.status, out),
                        );
                    }
                }
                Op::HashTyped => {
                    // digest = keccak(0x1901 || domainSeparator || messageHash), with --message-hash printing
                    // the message struct hash alone; the separator is taken from the library
                    let lib =
                        serde_json::from_slice::<hdwallet::typeddata::TypedData>(&self.input).ok();
                    let m = self.hash_digest(ctx, dir, &mut rep, &mut eh, &["--message-hash"])?;
                    match (lib, b.status.ok(), m) {
                        (Some(td), true, Some(m)) => {
                            let d = parse_digest(&line);
                            let mut buf = vec![0x19u8, 0x01];
                            buf.extend_from_slice(td.domain_separator().as_slice());
                            buf.extend_from_slice(&m);
                            let want = rm::keccak256(&buf);
                            if d != Some(want) || !one_line {
                                wrong(
                                    &mut rep,
                                    "typeddata-message-hash",
                                    format!(
                                        "`hash typeddata` printed {line:?} but keccak(0x1901 || domainSeparator || <--message-hash output 0x{}>) = 0x{}",
                                        hex::encode(m),
                                        hex::encode(want)
                                    ),
                                );
                            }
                            if m == want || Some(m) == d {
                                wrong(&mut rep, "typeddata-message-hash", "--message-hash printed the full digest".to_string());
                            }
                        }
                        (None, false, None) => rep.probe("input_rejected_consistently", true),
                        (lib, ok, m) => wrong(
                            &mut rep,
                            "sign-hash-disagree-on-validity",
                            format!("`hash typeddata`: library accepts={}, CLI ok={ok}, --message-hash ok={}", lib.is_some(), m.is_some()),
                        ),
                    }
                }
                Op::Conflict | Op::Refuse { .. } => {}
            }
        }

        let mut uniq: Vec<crate::framework::Violation> = Vec::new();
        for v in rep.violations.drain(..) {
            if !uniq.iter().any(|u| u.same_class(&v)) {
                uniq.push(v);
            }
        }
        rep.violations = uniq;
        rep.event_hash = eh.finish();
        rep.history = json!({"op": opname, "account": rm::path_to_string(&self.path), "reference_address": rm::eip55(&acct.address), "executions": hist});
        Ok(rep)
    }

    #[allow(clippy::too_many_arguments)]
    fn check_sig(
        &self,
        rep: &mut RunReport,
        b: &Outcome,
        line: &str,
        one_line: bool,
        digest: &[u8; 32],
        addr: &[u8; 20],
        opname: &str,
    ) {
        let ok = b.status.ok()
            && one_line
            && match parse_sig(line) {
                Some((r, s, v)) if v == 27 || v == 28 => {
                    rm::recover(digest, &r, &s, v == 28) == Some(*addr)
                }
                _ => false,
            };
        if !ok {
            rep.violate(
                "C16",
                "signature-not-by-account-over-digest",
                opname,
                format!(
                    "`{opname}` for {}: status {:?}, stdout {:?} is not a signature by {} over 0x{}",
                    rm::path_to_string(&self.path),
                    b.status,
                    b.stdout_str(),
                    rm::eip55(addr),
                    hex::encode(digest)
                ),
            );
        }
    }

    pub fn shrink_candidates(&self) -> Vec<AcctCase> {
        let mut out: Vec<AcctCase> = Vec::new();
        let mut push = |c: AcctCase| {
            if c != *self && !out.contains(&c) {
                out.push(c);
            }
        };
        // fewer variants (never the base)
        for i in (1..self.variants.len()).rev() {
            let mut c = self.clone();
            c.variants.remove(i);
            push(c);
        }
        for (i, v) in self.variants.iter().enumerate() {
            for p in iogen::shrink_plan(&v.rplan) {
                let mut c = self.clone();
                c.variants[i].rplan = p;
                push(c);
            }
            for p in iogen::shrink_plan(&v.wplan) {
                let mut c = self.clone();
                c.variants[i].wplan = p;
                push(c);
            }
            if v.env_mask != 0 {
                for bit in [1u8, 2, 4, 8] {
                    if v.env_mask & bit != 0 {
                        let mut c = self.clone();
                        c.variants[i].env_mask &= !bit;
                        push(c);
                    }
                }
            }
        }
        if self.password.is_some() {
            let mut c = self.clone();
            c.password = None;
            push(c);
        }
        if self.account_index.is_some() && self.op != Op::Conflict {
            let mut c = self.clone();
            c.account_index = None;
            c.path = rm::default_path(0);
            push(c);
            let mut c = self.clone();
            c.account_index = Some("1".into());
            c.path = rm::default_path(1);
            push(c);
        }
        if self.hd_path.is_some() && self.op != Op::Conflict {
            let mut c = self.clone();
            c.hd_path = None;
            c.path = rm::default_path(0);
            push(c);
            if self.path.len() > 1 {
                let mut c = self.clone();
                c.path.pop();
                c.hd_path = Some(rm::path_to_string(&c.path));
                push(c);
            }
        }
        if self.phrase != super::crashcase::GANACHE {
            let mut c = self.clone();
            c.phrase = super::crashcase::GANACHE.into();
            push(c);
        }
        if matches!(self.op, Op::HashData | Op::HashMessage | Op::SignMessage)
            && !self.input.is_empty()
        {
            for keep in [0, self.input.len() / 2, self.input.len() - 1] {
                let mut c = self.clone();
                c.input.truncate(keep);
                push(c);
            }
        }
        out
    }
}

// ---------------------------------------------------------------------------
// Generation
// ---------------------------------------------------------------------------

const MAIL: &str = r#"{"types":{"EIP712Domain":[{"name":"name","type":"string"},{"name":"version","type":"string"},{"name":"chainId","type":"uint256"},{"name":"verifyingContract","type":"address"}],"Person":[{"name":"name","type":"string"},{"name":"wallet","type":"address"}],"Mail":[{"name":"from","type":"Person"},{"name":"to","type":"Person"},{"name":"contents","type":"string"}]},"primaryType":"Mail","domain":{"name":"Ether Mail","version":"1","chainId":CHAIN,"verifyingContract":"0xCcCCccccCCCCcCCCCCCcCcCccCcCCCcCcccccccC"},"message":{"from":{"name":"Cow","wallet":"0xCD2a3d9F938E13CD947Ec05AbC7FE734Df8DD826"},"to":{"name":"Bob","wallet":"0xbBbBBBBbbBBBbbbBbbBbbbbBBbBbbbbBbBbbBBbB"},"contents":"TEXT"}}"#;

fn well_formed_typed_data(rng: &mut Rng) -> Vec<u8> {
    for _ in 0..6 {
        let doc = gen_typed_data(rng, true);
        if serde_json::from_str::<hdwallet::typeddata::TypedData>(&doc).is_ok() {
            return doc.into_bytes();
        }
    }
    let text: String = (0..rng.range(0, 30))
        .map(|_| *rng.pick(&['a', 'b', ' ', 'é', '!', '0']))
        .collect();
    MAIL.replace("CHAIN", &rng.below(100_000).to_string())
        .replace("TEXT", &text)
        .into_bytes()
}

fn well_formed_transaction(rng: &mut Rng) -> Vec<u8> {
    for _ in 0..8 {
        let doc = gen_transaction(rng, true);
        if serde_json::from_str::<hdwallet::transaction::Transaction>(&doc).is_ok() {
            return doc.into_bytes();
        }
    }
    br#"{"chainId":1,"nonce":0,"gasPrice":0,"gas":21000,"to":"0x0000000000000000000000000000000000000000","value":0,"data":"0x"}"#.to_vec()
}

/// Invocations that must be refused: the two selectors together in every placement around the
/// sub-command words, and selectors that are not selectors.
fn gen_refuse(rng: &mut Rng, phrase: &str) -> Op {
    let digest = format!("0x{}", hex::encode(rng.bytes(32)));
    // (words before the account options may go, words after)
    let shapes: [(&[&str], Vec<String>); 5] = [
        (&["address"], vec![]),
        (&["export"], vec![]),
        (&["public-key"], vec![]),
        (&["sign"], vec!["raw".into(), digest.clone()]),
        (&["sign"], vec!["message".into(), "/dev/null".into()]),
    ];
    let (head, tail) = &shapes[rng.usize_below(shapes.len())];
    let mut env: Vec<(String, String)> = Vec::new();
    let mut pre: Vec<String> = Vec::new(); // between the command word and its sub-command
    let mut post: Vec<String> = Vec::new(); // after the sub-command and its positional
    if rng.coin() {
        pre.extend(["--mnemonic".to_string(), phrase.to_string()]);
    } else {
        env.push(("MNEMONIC".into(), phrase.to_string()));
    }
    let why;
    if rng.coin() {
        // both selectors, each before or after the sub-command (or through the environment)
        why = "selectors-combined";
        let idx = ["0", "0", "1", "2", "7", ""][rng.usize_below(6)].to_string();
        // (an empty value is still a value: the selector is present)
        let path = ["m/44'/60'/0'/0/1", "m/0", "m/44'/60'/0'/0/0", ""][rng.usize_below(4)].to_string();
        let mut place = |flag: &str, envname: &str, val: String, rng: &mut Rng| match rng.below(if tail.is_empty() { 2 } else { 3 }) {
            0 => pre.extend([flag.to_string(), val]),
            1 => env.push((envname.to_string(), val)),
            _ => post.extend([flag.to_string(), val]),
        };
        place("--account-index", "ACCOUNT_INDEX", idx, rng);
        place("--hd-path", "HD_PATH", path, rng);
    } else {
        why = "malformed-selector-accepted";
        let bad_paths = [
            "44'/60'/0'/0/0", "M/44'/60'/0'/0/0", "m", "m/", "m/44h/60h/0h/0/0", "m/44'/60'/0'/0/", "m//0", "m/44'/x/0", "m/4294967296",
            "m/-1", "m/0x10", "m/44''/0", "m/1.0", "/m/0", "m\\0", "n/0", "", " ",
        ];
        let bad_index = ["abc", "-1", "4294967296", "1.5", "0x1", "1e3", "²", " ", "", "+"];
        if rng.chance(2, 3) {
            let v = bad_paths[rng.usize_below(bad_paths.len())].to_string();
            if rng.coin() {
                pre.extend(["--hd-path".to_string(), v]);
            } else {
                env.push(("HD_PATH".into(), v));
            }
        } else {
            let v = bad_index[rng.usize_below(bad_index.len())].to_string();
            if rng.coin() {
                pre.extend(["--account-index".to_string(), v]);
            } else {
                env.push(("ACCOUNT_INDEX".into(), v));
            }
        }
    }
    let mut argv: Vec<String> = head.iter().map(|s| s.to_string()).collect();
    argv.extend(pre);
    argv.extend(tail.iter().cloned());
    argv.extend(post);
    Op::Refuse { argv, env, why: why.to_string() }
}

pub fn gen_acct_case(rng: &mut Rng) -> AcctCase {
    let words = [12usize, 15, 18, 21, 24][rng.weighted(&[4, 1, 1, 1, 2])];
    let phrase = if rng.chance(1, 6) {
        super::crashcase::GANACHE.to_string()
    } else {
        rm::bip39_encode(&rng.bytes(words * 4 / 3)).unwrap()
    };
    let password = gen_password(rng);
    let (account_index, hd_path, path) = gen_selector(rng);
    let op = match rng.weighted(&[5, 3, 3, 3, 2, 3, 3, 2, 1, 2, 2]) {
        0 => Op::Address,
        1 => Op::Export,
        2 => Op::PublicKey,
        3 => Op::SignMessage,
        4 => Op::SignRaw {
            digest: format!("0x{}", hex::encode(rng.bytes(32))),
        },
        5 => Op::SignTx {
            signature_only: true,
        },
        6 => Op::SignTx {
            signature_only: false,
        },
        7 => Op::SignTyped,
        8 => Op::HashMessage,
        9 => Op::HashData,
        _ => Op::HashTyped,
    };
    let op = if rng.chance(1, 20) { Op::Conflict } else { op };
    let op = if rng.chance(1, 9) { gen_refuse(rng, &phrase) } else { op };
    let input = match &op {
        Op::SignMessage | Op::HashMessage | Op::HashData => {
            let n = match rng.weighted(&[3, 3, 2, 1]) {
                0 => rng.range(0, 12),
                1 => rng.range(0, 200),
                2 => rng.range(0, 5000),
                _ => rng.range(8000, 70000),
            } as usize;
            if rng.chance(1, 4) {
                // a message is opaque bytes, also when it looks like something the tool knows
                let h = hex::encode(rng.bytes_between(0, 40));
                match rng.below(10) {
                    0 => format!("0x{h}").into_bytes(),
                    1 => format!("0x{}\n", h.to_uppercase()).into_bytes(),
                    2 => h.into_bytes(),
                    3 => b"0x".to_vec(),
                    4 => format!("0x{}", hex::encode(rng.bytes(32))).into_bytes(),
                    5 => format!(" 0x{h} \n").into_bytes(),
                    6 => super::crashcase::GANACHE.as_bytes().to_vec(),
                    7 => br#"{"types":{},"primaryType":"x","domain":{},"message":{}}"#.to_vec(),
                    8 => b"\x19Ethereum Signed Message:\n0".to_vec(),
                    _ => b"m/44'/60'/0'/0/0\n".to_vec(),
                }
            } else {
                rng.bytes(n)
            }
        }
        Op::SignTx { .. } => well_formed_transaction(rng),
        Op::SignTyped | Op::HashTyped => well_formed_typed_data(rng),
        _ => Vec::new(),
    };
    let mut variants = vec![Variant {
        env_mask: 0,
        stdin: false,
        rplan: vec![],
        wplan: vec![],
        pipe: false,
    }];
    let n = input.len();
    if matches!(op, Op::Refuse { .. }) {
        // one execution; the base variant only carries an output plan
        variants.clear();
        variants.push(Variant { env_mask: 0, stdin: false, rplan: vec![], wplan: vec![], pipe: false });
    } else if op == Op::Conflict {
        // every flag/env mix of the two selectors
        variants.clear();
        for m in 0..4u8 {
            variants.push(Variant {
                env_mask: (m << 2) | (rng.below(4) as u8),
                stdin: false,
                rplan: vec![],
                wplan: vec![],
                pipe: false,
            });
        }
    } else {
        if op.needs_account() {
            // options through the environment: all, and one seeded mix
            variants.push(Variant {
                env_mask: 7,
                stdin: false,
                rplan: vec![],
                wplan: benign_plan(rng, 140),
                pipe: false,
            });
            variants.push(Variant {
                env_mask: 1 + rng.below(6) as u8,
                stdin: rng.coin(),
                rplan: vec![],
                wplan: vec![],
                pipe: false,
            });
        }
        if op.has_input() {
            variants.push(Variant {
                env_mask: 0,
                stdin: true,
                rplan: vec![],
                wplan: vec![],
                pipe: false,
            });
            variants.push(Variant {
                env_mask: if rng.coin() { 7 } else { 0 },
                stdin: true,
                rplan: benign_plan(rng, n),
                wplan: benign_plan(rng, 140),
                pipe: false,
            });
            if rng.coin() {
                variants.push(Variant {
                    env_mask: 0,
                    stdin: false,
                    rplan: benign_plan(rng, n),
                    wplan: vec![],
                    pipe: false,
                });
            }
            if rng.coin() {
                // through a pipe: as "-" under a delivery plan, or as the non-regular file /dev/stdin
                let stdin = rng.coin();
                variants.push(Variant {
                    env_mask: 0,
                    stdin,
                    rplan: if stdin || rng.coin() { benign_plan(rng, n) } else { vec![] },
                    wplan: vec![],
                    pipe: true,
                });
            }
            if rng.chance(1, 3) {
                let stdin = rng.coin();
                let p = benign_plan(rng, n);
                let calls = iogen::hard_error_window(rng, p.len());
                variants.push(Variant {
                    env_mask: 0,
                    stdin,
                    rplan: with_hard_error(rng, p, calls),
                    wplan: vec![],
                    pipe: false,
                });
            }
        } else if rng.coin() {
            variants.push(Variant {
                env_mask: rng.below(8) as u8,
                stdin: false,
                rplan: vec![],
                wplan: benign_plan(rng, 140),
                pipe: false,
            });
        }
    }
    AcctCase {
        phrase,
        password,
        account_index,
        hd_path,
        path,
        op,
        input,
        variants,
    }
}

pub struct C16Plan {
    pub seed: u64,
    pub seeded: usize,
}

const C16_ENUM: usize = 3 * 8;

impl Plan for C16Plan {
    fn total(&self) -> usize {
        C16_ENUM + self.seeded
    }
    fn enumerated(&self) -> usize {
        C16_ENUM
    }
    fn case(&self, idx: usize) -> super::AnyCase {
        if idx < C16_ENUM {
            // address/export/public-key x account indices {0,1,2,2^31-1} and four fixed paths, ganache phrase,
            // every option through the environment in the second execution
            let op = [Op::Address, Op::Export, Op::PublicKey][idx / 8].clone();
            let k = idx % 8;
            let (account_index, hd_path, path) = match k {
                0 => (None, None, rm::default_path(0)),
                1 => (Some("1".to_string()), None, rm::default_path(1)),
                2 => (Some("2".to_string()), None, rm::default_path(2)),
                3 => (
                    Some("2147483647".to_string()),
                    None,
                    rm::default_path(0x7fff_ffff),
                ),
                4 => (None, Some("m/0".to_string()), vec![(0, false)]),
                5 => (
                    None,
                    Some("m/44'/60'/1'/0/0".to_string()),
                    vec![(44, true), (60, true), (1, true), (0, false), (0, false)],
                ),
                6 => (
                    None,
                    Some("m/2147483647'/2147483647".to_string()),
                    vec![(0x7fff_ffff, true), (0x7fff_ffff, false)],
                ),
                _ => (
                    None,
                    Some("m/44'/60'/0'/0/0/0/0/0".to_string()),
                    vec![
                        (44, true),
                        (60, true),
                        (0, true),
                        (0, false),
                        (0, false),
                        (0, false),
                        (0, false),
                        (0, false),
                    ],
                ),
            };
            let c = AcctCase {
                phrase: super::crashcase::GANACHE.into(),
                password: if k % 2 == 1 {
                    Some("TREZOR".into())
                } else {
                    None
                },
                account_index,
                hd_path,
                path,
                op,
                input: vec![],
                variants: vec![
                    Variant {
                        env_mask: 0,
                        stdin: false,
                        rplan: vec![],
                        wplan: vec![],
                        pipe: false,
                    },
                    Variant {
                        env_mask: 7,
                        stdin: false,
                        rplan: vec![],
                        wplan: vec![IoStep::Chunk(1), IoStep::Eintr, IoStep::Chunk(3)],
                        pipe: false,
                    },
                ],
            };
            return super::AnyCase::Acct(c);
        }
        let mut rng = Rng::new(run_seed(self.seed, 0xC16, idx as u64));
        super::AnyCase::Acct(gen_acct_case(&mut rng))
    }
    fn rule(&self) -> String {
        format!(
            "Case i is a pure function of (VERIF_SEED, i). A case is a session of 2..8 simulated processes of the real binary: one account command executed once in a \
             base configuration (flags, input file, no plan) and then under variants — options through MNEMONIC/PASSWORD/ACCOUNT_INDEX/HD_PATH (all, or a seeded mix), input \
             from stdin in one piece, from stdin/file under a benign delivery plan (chunking to 1 byte, EINTR), under one hard EIO, stdout under short writes/EINTR — plus \
             the matching `hash` command where the oracle needs its digest. Enumerated: [0,{C16_ENUM}) address/export/public-key x account indices 0,1,2,2^31-1 and four \
             fixed paths. Seeded: mnemonic of 12..24 words, passphrase (none/ASCII/non-ASCII), selector (default / index incl. 2^31-1 / path depth 1..6), command from \
             address, export, public-key, sign message|raw|transaction[--signature-only]|typeddata, hash data|message|typeddata, or both selectors together in every \
             flag/env mix. distinct_nontrivial = distinct whole-case hashes among sessions in which a planned fault fired or an option travelled through the environment."
        )
    }
    fn assumptions(&self) -> Vec<String> {
        vec![
            "decided by simulation: equality of the output across input channels, delivery plans and flags-vs-environment, and failure without output under a hard read error".into(),
            "sampled by the workload, not decided by simulation: that the base output is the reference wallet's address / key / public key / a signature recovering to the reference address over the digest the real `hash` command prints".into(),
            "transaction and typed-data documents are drawn from well-formed documents only (their encoding is C06/C08, not claimed); `hash message`'s digest value is C10".into(),
            "signatures are checked by public-key recovery, so any valid signature by the selected key is accepted (determinism is C05)".into(),
            "path components and account indices are < 2^31 (the property's bound)".into(),
        ]
    }
    fn components(&self) -> Value {
        json!({
            "real": ["the whole hdwallet binary from /repo's working tree incl. src/main.rs dispatch, clap env handling, std I/O", "hdwallet library TypedData::domain_separator (in the oracle of `hash typeddata --message-hash`)"],
            "simulated": ["read(0), read(input file), write(1) delivery plans", "process environment and argv of each simulated process"],
            "stub": []
        })
    }
    fn required_probes(&self) -> Vec<String> {
        vec![
            "hard_error_fired".into(),
            "env_variant_run".into(),
            "stdin_plan_variant_run".into(),
            "nonzero_account_index".into(),
            "explicit_hd_path".into(),
            "nonascii_password".into(),
        ]
    }
}
