//! C17 batch: the threaded `new` scenarios (decided by schedule/fault
//! search, engine E2) followed by the parser workload (sampled, engine E1).

use super::crashcase::{chain_boundary_case, gen_crash_case, typed_int_boundary_case, CHAIN_ENUM, TYPED_INT_ENUM};
use super::newplans::{c17_new_enumerated, c17_new_seeded, C17_NEW_ENUM};

/// searches of 17..40 draws for every supported length x 0, 1, 2 workers: whatever is kept per
/// searcher across draws (a pool, a counter, a cache) is driven past its first wrap
pub const DEEP_ENUM: usize = 15;
use super::AnyCase;
use crate::framework::Plan;
use crate::prng::{run_seed, Rng};
use serde_json::{json, Value};

pub struct C17Plan {
    pub seed: u64,
    pub seeded_new: usize,
    pub seeded_crash: usize,
}

impl Plan for C17Plan {
    fn total(&self) -> usize {
        C17_NEW_ENUM + CHAIN_ENUM + DEEP_ENUM + TYPED_INT_ENUM + self.seeded_new + self.seeded_crash
    }
    fn enumerated(&self) -> usize {
        C17_NEW_ENUM + CHAIN_ENUM + DEEP_ENUM + TYPED_INT_ENUM
    }
    fn case(&self, idx: usize) -> AnyCase {
        if idx < C17_NEW_ENUM {
            return AnyCase::New(c17_new_enumerated(idx));
        }
        if idx < C17_NEW_ENUM + CHAIN_ENUM {
            return AnyCase::Crash(chain_boundary_case(idx - C17_NEW_ENUM));
        }
        if idx < C17_NEW_ENUM + CHAIN_ENUM + DEEP_ENUM {
            return AnyCase::New(super::newplans::c17_deep_search(idx - C17_NEW_ENUM - CHAIN_ENUM));
        }
        let idx = if idx < C17_NEW_ENUM + CHAIN_ENUM + DEEP_ENUM + TYPED_INT_ENUM {
            return AnyCase::Crash(typed_int_boundary_case(idx - C17_NEW_ENUM - CHAIN_ENUM - DEEP_ENUM));
        } else {
            idx - TYPED_INT_ENUM
        };
        let mut rng = Rng::new(run_seed(self.seed, 0xC17, idx as u64));
        if idx < C17_NEW_ENUM + CHAIN_ENUM + DEEP_ENUM + self.seeded_new {
            AnyCase::New(c17_new_seeded(&mut rng))
        } else {
            AnyCase::Crash(gen_crash_case(&mut rng))
        }
    }
    fn rule(&self) -> String {
        format!(
            "Case i is a pure function of (VERIF_SEED, i). (i) Decided by schedule/fault search, engine E2: [0,{C17_NEW_ENUM}) worker counts \
             {{0..8,16,32,64}} x 14 argument tuples (valid search; entropy failure at request 0 / 1; malformed and out-of-range --vanity-hd-path; account indices \
             2^31, 2^32-1, 2^32, 2^64-1, 2^64; upper-case prefix; 13 words) and then seeded `new` scenarios (junk numbers, paths, prefixes, lengths, languages, \
             0..4 planned entropy responses incl. failures, scheduler policy random/sticky/PCT-like); then 56 enumerated legacy transactions with the chain id at the EIP-155 v-overflow limit (2^256-37)/2 -3..+3, decimal and hex, through `hash transaction --signature` with both parities and `sign transaction`; then 2112 enumerated typed-data documents with one intN/uintN member (N = 8..256 step 8) at every boundary of its range (0, 2^(N-1)-1, 2^(N-1), 2^N-1, 2^N, their negatives, -2^(N-1)+-1) as number, decimal string and hex string; invariant: no task panics, no deadlock before exit, exit within \
             384+32*workers further entropy requests once every entropy response matches, step budget 4000+400*(plan+workers). (ii) Sampled by the workload, engine E1 (real binary): \
             seeded boundary-biased and mutated-valid inputs for mnemonic phrases (0..40 words, valid/invalid checksum), paths and indices around 2^31/2^32/2^64 \
             (flags and environment), signature text (scalars 0,1,n-1,n,2^256-1; v 0,26..29,255; lengths 0..140), digests, transaction JSON (every numeric field at \
             0,2^64,2^255,2^256-1,2^256,-1,1.5,1e80,\"\",\"0x\"; chain ids to 2^256-1; with and without --signature), typed-data JSON (all widths, up to 64 array \
             suffixes, recursive and missing types, nesting to 200), hex input, `new` arguments, messages to 64 KiB; invariant: exit status in {{0,2,255}}, no signal, \
             termination within the wall-clock limit. distinct_nontrivial = distinct whole-case hashes among runs that got past argument parsing (status != 2) \
             or, for E2, in which more than one task was scheduled or a fault fired.",
        )
    }
    fn assumptions(&self) -> Vec<String> {
        vec![
            "half (ii) is input generation run by the simulator, not a decision by simulation: a parser panic the generator does not draw is not found; per-family counts are in reach_probes".into(),
            "worker counts are bounded to 0..=64 and vanity prefixes to what the planted/generous entropy device can satisfy, as the property's quantifier states".into(),
            "the binary is built with overflow-checks and debug-assertions so that arithmetic overflow is a panic".into(),
            "a worker thread's panic is modelled as thread death (its Sender dropped, the process alive), which is what turns it into a hang of the main thread".into(),
            "wall-clock limit 10 s per simulated process (>= 400x the slowest legitimate command here)".into(),
        ]
    }
    fn components(&self) -> Value {
        json!({
            "real": ["E1: the whole hdwallet binary from /repo's working tree", "E2: src/cmd/new.rs + hdwallet library from /repo's working tree, clap"],
            "simulated": ["getentropy", "read(0)/read(file)/write(1) delivery plans (benign only here)", "E2: threads, channel, scheduler, process exit"],
            "stub": ["E2: src/main.rs (cross-validated against E1 on single-searcher runs)"]
        })
    }
    fn required_probes(&self) -> Vec<String> {
        let mut v: Vec<String> = super::crashcase::FAMILIES
            .iter()
            .map(|f| format!("family:{f}"))
            .collect();
        v.push("device_turned_generous".into());
        v
    }
}
