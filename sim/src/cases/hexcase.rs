//! C19: `hex encode | hex decode` as a two-process pipeline history under
//! simulated stream delivery.

use super::iogen::{self, benign_plan, with_hard_error};
use crate::exec::{
    exec, hexbytes, hexbytes_opt, Cmd, Ctx, HarnessError, IoStep, NamedFile, Outcome,
};
use crate::framework::RunReport;
use crate::prng::{Fnv, Rng};
use serde::{Deserialize, Serialize};
use serde_json::json;
use std::path::Path;

#[derive(Clone, Debug, Serialize, Deserialize, PartialEq, Eq)]
pub enum LayoutOp {
    /// insert an ASCII whitespace byte at position `at` (mod len+1)
    InsertWs {
        at: u32,
        ws: u8,
    },
    /// insert a non-ASCII whitespace character (U+0085, U+00A0, U+2003, U+2028, U+3000; index
    /// `which`) at byte position `at` (mod len+1). Whether such whitespace is ignored is left open
    /// by the statement; what is required is that the answer does not depend on how the stream
    /// is delivered.
    InsertUnicodeWs { at: u32, which: u8 },
    /// flip the case of the letter at position `at` (mod len), if it is one
    FlipCase {
        at: u32,
    },
    /// upper-case every hex letter (but not the prefix's x)
    UpperAll,
    DropPrefix,
    DropNewline,
}

#[derive(Clone, Debug, Serialize, Deserialize, PartialEq, Eq)]
pub struct HexCase {
    #[serde(with = "hexbytes")]
    pub data: Vec<u8>,
    /// Some(text): skip the encoder, feed this malformed text to the decoder
    /// and require refusal with no output.
    #[serde(with = "hexbytes_opt")]
    pub malformed: Option<Vec<u8>>,
    pub enc_stdin: bool,
    pub dec_stdin: bool,
    /// pass "-" explicitly instead of relying on the default argument
    pub explicit_dash: bool,
    /// the stage's input arrives through a pipe ("-"/default when the stage uses stdin, the
    /// non-regular path /dev/stdin otherwise)
    #[serde(default)]
    pub enc_pipe: bool,
    #[serde(default)]
    pub dec_pipe: bool,
    pub enc_r: Vec<IoStep>,
    pub enc_w: Vec<IoStep>,
    pub dec_r: Vec<IoStep>,
    pub dec_w: Vec<IoStep>,
    pub layout: Vec<LayoutOp>,
}

pub fn expected_encoding(data: &[u8]) -> Vec<u8> {
    format!("0x{}\n", hex::encode(data)).into_bytes()
}

pub fn apply_layout(text: &[u8], ops: &[LayoutOp]) -> Vec<u8> {
    let mut t = text.to_vec();
    for op in ops {
        match op {
            LayoutOp::InsertWs { at, ws } => {
                let i = *at as usize % (t.len() + 1);
                t.insert(i, *ws);
            }
            LayoutOp::InsertUnicodeWs { at, which } => {
                // only at a character boundary of what is there (ASCII so far, or after a previous insertion)
                let mut i = *at as usize % (t.len() + 1);
                while i < t.len() && (t[i] & 0xc0) == 0x80 {
                    i += 1;
                }
                let ws = UNICODE_WS[*which as usize % UNICODE_WS.len()];
                t.splice(i..i, ws.bytes());
            }
            LayoutOp::FlipCase { at } => {
                if !t.is_empty() {
                    let i = *at as usize % t.len();
                    let c = t[i];
                    // never touch the x of the prefix: "0X" is not the documented prefix
                    if c.is_ascii_hexdigit() && c.is_ascii_alphabetic() {
                        t[i] = if c.is_ascii_lowercase() {
                            c.to_ascii_uppercase()
                        } else {
                            c.to_ascii_lowercase()
                        };
                    }
                }
            }
            LayoutOp::UpperAll => {
                for c in t.iter_mut() {
                    if c.is_ascii_hexdigit() {
                        *c = c.to_ascii_uppercase();
                    }
                }
            }
            LayoutOp::DropPrefix => {
                // remove the first '0','x' pair if the non-whitespace text starts with it
                let idx: Vec<usize> = t
                    .iter()
                    .enumerate()
                    .filter(|(_, c)| !(c.is_ascii_whitespace() || **c == 0x0b))
                    .map(|(i, _)| i)
                    .take(2)
                    .collect();
                if idx.len() == 2 && t[idx[0]] == b'0' && t[idx[1]] == b'x' {
                    t.remove(idx[1]);
                    t.remove(idx[0]);
                }
            }
            LayoutOp::DropNewline => {
                if t.last() == Some(&b'\n') {
                    t.pop();
                }
            }
        }
    }
    t
}

// form feed is ASCII whitespace for every definition in use (C isspace, char::is_whitespace,
// u8::is_ascii_whitespace); vertical tab is not one for the last (the WHATWG set), and the statement
// does not say which definition it means, so it goes with the open class: accepting and refusing
// are both fine, the answer must not depend on delivery (conforming/conf-hex-ascii-whitespace)
const WS: [u8; 5] = [b' ', b'\t', b'\r', b'\n', 0x0c];
const UNICODE_WS: [&str; 6] = ["\u{85}", "\u{a0}", "\u{2003}", "\u{2028}", "\u{3000}", "\u{0b}"];

pub fn gen_layout(rng: &mut Rng, text_len: usize) -> Vec<LayoutOp> {
    let mut ops = Vec::new();
    match rng.weighted(&[3, 3, 2, 2]) {
        0 => {}
        1 => {
            for _ in 0..rng.range(1, 6) {
                ops.push(LayoutOp::InsertWs {
                    at: rng.below(text_len as u64 + 8) as u32,
                    ws: *rng.pick(&WS),
                });
            }
        }
        2 => {
            for _ in 0..rng.range(1, 12) {
                ops.push(LayoutOp::FlipCase {
                    at: rng.below(text_len as u64 + 1) as u32,
                });
            }
            if rng.coin() {
                ops.push(LayoutOp::InsertWs {
                    at: 1,
                    ws: *rng.pick(&WS),
                }); // inside the prefix
            }
        }
        _ => {
            if rng.coin() {
                ops.push(LayoutOp::UpperAll);
            }
            for _ in 0..rng.range(0, 20) {
                if rng.coin() {
                    ops.push(LayoutOp::InsertWs {
                        at: rng.below(text_len as u64 + 8) as u32,
                        ws: *rng.pick(&WS),
                    });
                } else {
                    ops.push(LayoutOp::FlipCase {
                        at: rng.below(text_len as u64 + 1) as u32,
                    });
                }
            }
        }
    }
    if rng.chance(1, 10) {
        for _ in 0..rng.range(1, 3) {
            ops.push(LayoutOp::InsertUnicodeWs {
                at: rng.below(text_len as u64 + 8) as u32,
                which: rng.below(UNICODE_WS.len() as u64) as u8,
            });
        }
    }
    if rng.chance(1, 4) {
        ops.push(LayoutOp::DropPrefix);
    }
    if rng.chance(1, 4) {
        ops.push(LayoutOp::DropNewline);
    }
    ops
}

/// Malformed decoder input derived from valid text.
pub fn gen_malformed(rng: &mut Rng, data: &[u8]) -> Vec<u8> {
    let hexs = hex::encode(data);
    let mut t = format!("0x{hexs}").into_bytes();
    match rng.weighted(&[3, 4, 2, 1, 1, 1]) {
        5 => {
            // a byte-order mark (or another invisible non-whitespace character) in front
            let mark = ["\u{feff}", "\u{200b}", "\u{2060}", "\u{fffe}"][rng.usize_below(4)];
            t.splice(0..0, mark.bytes());
        }
        0 => {
            // odd number of digits
            if rng.coin() || data.is_empty() {
                t.push(*rng.pick(b"0123456789abcdefABCDEF"));
            } else {
                t.pop();
            }
        }
        1 => {
            // one non-hex character at a seeded digit position
            let bad: &[&[u8]] = &[
                b"+",
                b"g",
                b"z",
                b"G",
                b"-",
                b"_",
                b".",
                b"x",
                b"\0",
                "é".as_bytes(),
                "１".as_bytes(),
                b"o",
                b"O",
                b"l",
            ];
            // ... or a character that is no hex digit but whose code point, cut down to one byte,
            // is one (U+0130 -> '0', U+0441 -> 'A', U+FF41 -> 'A', U+3042 -> 'B', ...)
            let lookalike: Vec<u8>;
            let b: &[u8] = if rng.chance(1, 3) {
                let low = *rng.pick(b"0123456789abcdefABCDEF") as u32;
                let c = loop {
                    let hi = rng.range(1, 0x2ff) as u32;
                    if let Some(c) = char::from_u32((hi << 8) | low) {
                        if !c.is_whitespace() && !c.is_ascii() {
                            break c;
                        }
                    }
                };
                lookalike = c.to_string().into_bytes();
                &lookalike
            } else if rng.chance(1, 3) {
                // any ASCII byte that is neither a hex digit nor ASCII whitespace (separators such as
                // ':' ',' ';' '"', control characters, DEL ...): leniency is about layout only
                let c = loop {
                    let c = rng.below(128) as u8;
                    if !c.is_ascii_hexdigit() && !matches!(c, 9..=13 | 32) {
                        break c;
                    }
                };
                lookalike = vec![c];
                &lookalike
            } else {
                bad[rng.usize_below(bad.len())]
            };
            let at = 2 + rng.usize_below(t.len() - 2 + 1);
            if rng.coin() && at < t.len() {
                // replace a digit (keeps even count when the replacement is one byte)
                t.splice(at..at + 1, b.iter().copied());
            } else {
                // insert two copies so that the digit count stays even and only the character is wrong
                let mut ins = b.to_vec();
                ins.extend_from_slice(b);
                t.splice(at..at, ins);
            }
        }
        2 => {
            // not UTF-8
            let at = rng.usize_below(t.len() + 1);
            let bad: &[&[u8]] = &[
                &[0xff],
                &[0x80],
                &[0xc3],
                &[0xed, 0xa0, 0x80],
                &[0xf8, 0x88, 0x80, 0x80, 0x80],
            ];
            t.splice(at..at, rng.pick(bad).iter().copied());
        }
        3 => {
            // doubled prefix
            t.splice(0..0, b"0x".iter().copied());
        }
        _ => {
            // prefix in the wrong place
            t.extend_from_slice(b"0x");
            if t.len() % 2 == 1 {
                t.push(b'0');
            }
        }
    }
    if rng.coin() {
        t.push(b'\n');
    }
    t
}

/// Is `text` acceptable hex per the property statement (whitespace anywhere,
/// either case, optional 0x, even digit count)? Returns the bytes if so.
pub fn spec_decode(text: &[u8]) -> Option<Vec<u8>> {
    let s = std::str::from_utf8(text).ok()?;
    let filtered: String = s.chars().filter(|c| !c.is_whitespace()).collect();
    let body = filtered.strip_prefix("0x").unwrap_or(&filtered);
    if body.len() % 2 != 0 || !body.bytes().all(|c| c.is_ascii_hexdigit()) {
        return None;
    }
    hex::decode(body).ok()
}

impl HexCase {
    fn stage(&self, op: &str, input: &[u8], use_stdin: bool, r: &[IoStep], w: &[IoStep]) -> Cmd {
        let mut cmd = Cmd {
            argv: vec!["hex".into(), op.into()],
            wplan: w.to_vec(),
            ..Cmd::default()
        };
        let pipe = if op == "encode" {
            self.enc_pipe
        } else {
            self.dec_pipe
        };
        if use_stdin {
            if self.explicit_dash {
                cmd.argv.push("-".into());
            }
            cmd.stdin = Some(input.to_vec());
            cmd.stdin_pipe = pipe;
            cmd.rplan = r.to_vec();
        } else if pipe && !iogen::has_hard(r) {
            cmd.argv.push("/dev/stdin".into());
            cmd.stdin = Some(input.to_vec());
            cmd.stdin_pipe = true;
            // the shim applies the R plan to every descriptor that names fd 0's pipe
            cmd.rplan = r.to_vec();
        } else {
            cmd.argv.push("in.bin".into());
            cmd.files.push(NamedFile {
                name: "in.bin".into(),
                data: input.to_vec(),
            });
            cmd.fplan = r.to_vec();
        }
        cmd
    }

    fn account(rep: &mut RunReport, o: &Outcome, use_stdin: bool, r: &[IoStep], w: &[IoStep]) {
        let rt = if use_stdin { 'R' } else { 'F' };
        let name = if use_stdin { "stdin" } else { "file" };
        let (c, e, h) = iogen::configured(r);
        let f = iogen::fired(&o.io, rt);
        rep.fault(&format!("{name}_short_read"), c, f.short);
        rep.fault(&format!("{name}_eintr"), e, f.eintr);
        rep.fault(&format!("{name}_hard_error"), h, f.hard);
        let (c, e, _) = iogen::configured(w);
        let fw = iogen::fired(&o.io, 'W');
        rep.fault("stdout_short_write", c, fw.short);
        rep.fault("stdout_eintr", e, fw.eintr);
        rep.syscalls += f.calls + fw.calls;
        rep.procs += 1;
        if f.short + f.eintr + f.hard + fw.short + fw.eintr > 0 {
            rep.nontrivial = true;
        }
        // EINTR on the read that would have observed EOF
        let evs: Vec<_> = o.io.iter().filter(|e| e.tag == rt).collect();
        let eof_after_eintr = evs
            .windows(2)
            .any(|p| p[0].ret < 0 && p[0].errno == 4 && p[1].ret == 0);
        rep.probe("eintr_on_last_read_before_eof", eof_after_eintr);
        rep.probe("write_split_mid_output", fw.short > 0);
    }

    pub fn run(&self, ctx: &Ctx, dir: &Path) -> Result<RunReport, HarnessError> {
        let mut rep = RunReport::default();
        let mut fh = Fnv::new();
        fh.write(serde_json::to_string(self).unwrap().as_bytes());
        rep.shape = fh.finish();
        let mut eh = Fnv::new();
        let mut hist = Vec::new();
        rep.fault_free = !iogen::has_hard(&self.enc_r) && !iogen::has_hard(&self.dec_r);
        for p in [
            "unicode_whitespace_layout",
            "eintr_on_last_read_before_eof",
            "write_split_mid_output",
            "hard_error_before_eof_fired",
            "hard_error_not_reached",
        ] {
            rep.probe(p, false);
        }

        let dec_input: Vec<u8>;
        if let Some(bad) = &self.malformed {
            dec_input = bad.clone();
        } else {
            // ---- stage 1: encode -------------------------------------------------
            let cmd = self.stage(
                "encode",
                &self.data,
                self.enc_stdin,
                &self.enc_r,
                &self.enc_w,
            );
            let o = exec(ctx, dir, &cmd)?;
            eh.write_u64(o.event_hash());
            Self::account(&mut rep, &o, self.enc_stdin, &self.enc_r, &self.enc_w);
            hist.push(json!({"stage": "encode", "argv": cmd.argv, "status": format!("{:?}", o.status), "stdout": o.stdout_str(), "io": o.io.len()}));
            let want = expected_encoding(&self.data);
            let rt = if self.enc_stdin { 'R' } else { 'F' };
            if iogen::hard_fired(&o.io, rt) {
                rep.probe("hard_error_before_eof_fired", true);
                if o.status.ok() || !o.stdout.is_empty() {
                    rep.violate(
                        "C19",
                        "encode-after-read-error",
                        "hex encode",
                        format!("read error injected into hex encode, yet status {:?} and {} bytes on stdout", o.status, o.stdout.len()),
                    );
                }
                rep.event_hash = eh.finish();
                rep.history = json!(hist);
                return Ok(rep);
            }
            if iogen::has_hard(&self.enc_r) {
                rep.probe("hard_error_not_reached", true);
            }
            if !o.status.ok() || o.stdout != want {
                rep.violate(
                    "C19",
                    "encode-output",
                    "hex encode",
                    format!(
                        "hex encode of {} bytes: status {:?}, stdout {:?}, expected {:?}",
                        self.data.len(),
                        o.status,
                        trunc(&o.stdout),
                        trunc(&want)
                    ),
                );
                rep.event_hash = eh.finish();
                rep.history = json!(hist);
                return Ok(rep);
            }
            dec_input = apply_layout(&o.stdout, &self.layout);
        }

        // ---- stage 2: decode ------------------------------------------------------
        let cmd = self.stage(
            "decode",
            &dec_input,
            self.dec_stdin,
            &self.dec_r,
            &self.dec_w,
        );
        let o = exec(ctx, dir, &cmd)?;
        eh.write_u64(o.event_hash());
        Self::account(&mut rep, &o, self.dec_stdin, &self.dec_r, &self.dec_w);
        hist.push(json!({"stage": "decode", "argv": cmd.argv, "input": String::from_utf8_lossy(&trunc(&dec_input)), "status": format!("{:?}", o.status), "stdout_hex": hex::encode(trunc(&o.stdout)), "io": o.io.len()}));
        let rt = if self.dec_stdin { 'R' } else { 'F' };
        if iogen::hard_fired(&o.io, rt) {
            rep.probe("hard_error_before_eof_fired", true);
            if o.status.ok() || !o.stdout.is_empty() {
                rep.violate(
                    "C19",
                    "decode-after-read-error",
                    "hex decode",
                    format!("read error injected into hex decode, yet status {:?} and {} bytes on stdout", o.status, o.stdout.len()),
                );
            }
        } else {
            if iogen::has_hard(&self.dec_r) {
                rep.probe("hard_error_not_reached", true);
            }
            let open_ws = self.layout.iter().any(|op| matches!(op, LayoutOp::InsertUnicodeWs { .. }));
            if open_ws && self.malformed.is_none() {
                // Non-ASCII whitespace: accepting (with the right bytes) and refusing (with none)
                // are both fine, but the same text must get the same answer however it arrives.
                // Reference execution: the text as a regular file, no delivery plan.
                let base_cmd = Cmd {
                    argv: vec!["hex".into(), "decode".into(), "in.bin".into()],
                    files: vec![NamedFile { name: "in.bin".into(), data: dec_input.clone() }],
                    ..Cmd::default()
                };
                let b = exec(ctx, dir, &base_cmd)?;
                eh.write_u64(b.event_hash());
                rep.procs += 1;
                rep.probe("unicode_whitespace_layout", true);
                let accepted_ok = |x: &Outcome| x.status.ok() && x.stdout == self.data;
                let refused_ok = |x: &Outcome| !x.status.ok() && x.stdout.is_empty();
                if !(accepted_ok(&b) || refused_ok(&b)) || !(accepted_ok(&o) || refused_ok(&o)) || b.status.ok() != o.status.ok() {
                    rep.violate(
                        "C19",
                        "decode-depends-on-delivery",
                        "hex decode",
                        format!(
                            "text with non-ASCII whitespace ({} bytes): as a plain file status {:?} / {} bytes out, under the delivery plan ({}, {} steps) status {:?} / {} bytes out; layout {:?}",
                            dec_input.len(),
                            b.status,
                            b.stdout.len(),
                            if self.dec_stdin { "stdin" } else { "file" },
                            self.dec_r.len(),
                            o.status,
                            o.stdout.len(),
                            self.layout
                        ),
                    );
                }
                rep.event_hash = eh.finish();
                rep.history = json!(hist);
                return Ok(rep);
            }
            match (&self.malformed, spec_decode(&dec_input)) {
                (None, Some(want)) => {
                    debug_assert_eq!(want, self.data);
                    if !o.status.ok() || o.stdout != self.data {
                        rep.violate(
                            "C19",
                            "decode-roundtrip",
                            "hex decode",
                            format!(
                                "decode(layout(encode(x))) != x for {} bytes: status {:?}, got {} bytes {:?}, layout {:?}",
                                self.data.len(),
                                o.status,
                                o.stdout.len(),
                                hex::encode(trunc(&o.stdout)),
                                self.layout
                            ),
                        );
                    }
                }
                (Some(_), None) => {
                    // malformed: must be refused, and not a single byte may reach stdout
                    if o.status.ok() || !o.stdout.is_empty() {
                        rep.violate(
                            "C19",
                            "decode-malformed",
                            "hex decode",
                            format!(
                                "malformed hex {:?}: status {:?}, {} bytes on stdout",
                                String::from_utf8_lossy(&trunc(&dec_input)),
                                o.status,
                                o.stdout.len()
                            ),
                        );
                    }
                    rep.nontrivial = true;
                }
                (Some(_), Some(want)) => {
                    // the mutation happened to stay well-formed: then it must decode
                    if !o.status.ok() || o.stdout != want {
                        rep.violate(
                            "C19",
                            "decode-roundtrip",
                            "hex decode",
                            "well-formed variant not decoded".to_string(),
                        );
                    }
                }
                (None, None) => {
                    return Err(HarnessError(
                        "layout produced text outside the specification".into(),
                    ));
                }
            }
        }
        // a panic is never an "ordinary error"; that is C17's clause, recorded here too
        if matches!(
            o.status,
            crate::exec::Status::Exit(101)
                | crate::exec::Status::Signal(_)
                | crate::exec::Status::Timeout
        ) {
            let (loc, msg) = o.panic_site().unwrap_or_default();
            rep.violate(
                "C17",
                "panic",
                crate::exec::panic_fingerprint(&loc, &msg),
                format!("hex decode: {:?} {msg} at {loc}", o.status),
            );
        }
        rep.event_hash = eh.finish();
        rep.history = json!(hist);
        Ok(rep)
    }

    pub fn shrink_candidates(&self) -> Vec<HexCase> {
        let mut out = Vec::new();
        let mut push = |c: HexCase| {
            if c != *self {
                out.push(c);
            }
        };
        // plans first: a violation that survives without faults is an ordinary bug
        for (get, set) in [
            (self.enc_r.clone(), 0usize),
            (self.enc_w.clone(), 1),
            (self.dec_r.clone(), 2),
            (self.dec_w.clone(), 3),
        ] {
            for p in iogen::shrink_plan(&get) {
                let mut c = self.clone();
                match set {
                    0 => c.enc_r = p,
                    1 => c.enc_w = p,
                    2 => c.dec_r = p,
                    _ => c.dec_w = p,
                }
                push(c);
            }
        }
        if !self.layout.is_empty() {
            let mut c = self.clone();
            c.layout.clear();
            push(c);
            for i in 0..self.layout.len().min(16) {
                let mut c = self.clone();
                c.layout.remove(i);
                push(c);
            }
        }
        // shorter data
        if self.malformed.is_none() && !self.data.is_empty() {
            for keep in [0, 1, self.data.len() / 2, self.data.len() - 1] {
                let mut c = self.clone();
                c.data.truncate(keep);
                push(c);
            }
            let mut c = self.clone();
            c.data.remove(0);
            push(c);
            if self.data.iter().any(|b| *b != 0) {
                let mut c = self.clone();
                c.data = vec![0; self.data.len()];
                push(c);
            }
        }
        if let Some(m) = &self.malformed {
            for keep in [m.len() / 2, m.len().saturating_sub(1)] {
                let mut c = self.clone();
                let mut t = m.clone();
                t.truncate(keep);
                if spec_decode(&t).is_none() {
                    c.malformed = Some(t);
                    push(c);
                }
            }
            if m.len() > 1 {
                let mut c = self.clone();
                let t = m[1..].to_vec();
                if spec_decode(&t).is_none() {
                    c.malformed = Some(t);
                    push(c);
                }
            }
        }
        if self.enc_pipe || self.dec_pipe {
            let mut c = self.clone();
            c.enc_pipe = false;
            c.dec_pipe = false;
            push(c);
        }
        for flag in 0..3 {
            let mut c = self.clone();
            match flag {
                0 if !self.enc_stdin => {
                    c.enc_stdin = true;
                }
                1 if !self.dec_stdin => {
                    c.dec_stdin = true;
                }
                2 if self.explicit_dash => {
                    c.explicit_dash = false;
                }
                _ => continue,
            }
            push(c);
        }
        out
    }
}

fn trunc(b: &[u8]) -> Vec<u8> {
    b[..b.len().min(96)].to_vec()
}

// ---------------------------------------------------------------------------

pub struct HexPlan {
    pub seed: u64,
    pub seeded: usize,
}

/// lengths around the buffer sizes a reader or writer is likely to use (the property's own bound is 4096)
pub const BOUNDARY_LENGTHS: [usize; 15] = [1023, 1024, 1025, 2047, 2048, 2049, 4095, 4096, 4097, 8191, 8192, 8193, 65535, 65536, 65537];
pub const ENUMERATED: usize = 65 + 256 + BOUNDARY_LENGTHS.len();

fn gen_common(rng: &mut Rng, data: Vec<u8>) -> HexCase {
    let enc_len = data.len();
    let text_len = 2 * data.len() + 3;
    let mut c = HexCase {
        data,
        malformed: None,
        enc_stdin: rng.chance(3, 4),
        dec_stdin: rng.chance(3, 4),
        explicit_dash: rng.coin(),
        enc_pipe: rng.chance(1, 4),
        dec_pipe: rng.chance(1, 4),
        enc_r: benign_plan(rng, enc_len),
        enc_w: benign_plan(rng, text_len),
        dec_r: benign_plan(rng, text_len + 10),
        dec_w: benign_plan(rng, enc_len),
        layout: gen_layout(rng, text_len),
    };
    match rng.weighted(&[14, 4, 2]) {
        0 => {}
        1 => {
            let m = gen_malformed(rng, &c.data);
            if spec_decode(&m).is_none() {
                c.malformed = Some(m);
            }
        }
        _ => {
            // one hard read error in one of the two stages
            if rng.coin() {
                let calls = iogen::hard_error_window(rng, c.enc_r.len());
                c.enc_r = with_hard_error(rng, std::mem::take(&mut c.enc_r), calls);
            } else {
                let calls = iogen::hard_error_window(rng, c.dec_r.len());
                c.dec_r = with_hard_error(rng, std::mem::take(&mut c.dec_r), calls);
            }
        }
    }
    c
}

impl crate::framework::Plan for HexPlan {
    fn total(&self) -> usize {
        ENUMERATED + self.seeded
    }
    fn enumerated(&self) -> usize {
        ENUMERATED
    }
    fn case(&self, idx: usize) -> super::AnyCase {
        let c = if idx < 65 {
            // every length 0..=64, fixed content, seed-independent plans
            let mut rng = Rng::new(0xC19_0000 + idx as u64);
            let data: Vec<u8> = (0..idx).map(|i| (i * 37 + idx) as u8).collect();
            let mut c = gen_common(&mut rng, data);
            c.malformed = None;
            c
        } else if idx >= 65 + 256 && idx < ENUMERATED {
            // lengths at buffer-size boundaries, seed-independent content and plans
            let n = BOUNDARY_LENGTHS[idx - 65 - 256];
            let mut rng = Rng::new(0xC19_2000 + idx as u64);
            let data: Vec<u8> = (0..n).map(|i| (i * 131 + (i >> 8) * 7 + n) as u8).collect();
            let mut c = gen_common(&mut rng, data);
            c.malformed = None;
            c
        } else if idx < ENUMERATED {
            // all 256 single bytes
            let b = (idx - 65) as u8;
            let mut rng = Rng::new(0xC19_1000 + idx as u64);
            let mut c = gen_common(&mut rng, vec![b]);
            c.malformed = None;
            c
        } else {
            let mut rng = Rng::new(crate::prng::run_seed(self.seed, 0xC19, idx as u64));
            let len = match rng.weighted(&[4, 4, 2, 1]) {
                0 => rng.range(0, 8),
                1 => rng.range(0, 80),
                2 => rng.range(0, 600),
                _ => rng.range(0, 4096),
            } as usize;
            let mut data = match rng.below(5) {
                0 => vec![*rng.pick(&[0u8, 0xff, 0x0a, 0x20, 0x30, 0x78])].repeat(len),
                _ => rng.bytes(len),
            };
            if rng.chance(1, 6) {
                // content that looks like something: byte-order marks, magic numbers, text
                // that is itself hex or whitespace, line ends at buffer-size offsets
                const MAGIC: [&[u8]; 14] = [
                    b"\xef\xbb\xbf", b"\xfe\xff", b"\xff\xfe", b"\xff\xfe\x00\x00", b"\x1f\x8b", b"0x", b"0X", b"#!", b"\n", b"\r\n", b" ", b"\x00", b"\x7fELF", b"{\"",
                ];
                let m = MAGIC[rng.usize_below(MAGIC.len())];
                match rng.below(3) {
                    0 => {
                        data.splice(0..0, m.iter().copied());
                    }
                    1 => data.extend_from_slice(m),
                    _ => {
                        let at = [1023usize, 1024, 1025, 4095, 4096, 8191, 8192][rng.usize_below(7)];
                        if data.len() < at + 8 {
                            data.resize(at + 8, 0x41);
                        }
                        data.splice(at..at, m.iter().copied());
                    }
                }
                data.truncate(9000);
            }
            gen_common(&mut rng, data)
        };
        super::AnyCase::Hex(c)
    }
    fn rule(&self) -> String {
        "Case i is a pure function of (VERIF_SEED, i): indices 0..65 are every input length 0..=64, 65..321 every single byte value, 321..336 lengths at buffer-size boundaries (1023..65537), \
         the rest are seeded (length 0..=4096, content, whitespace/case/prefix re-layout or one malformed variant, stdin vs file for \
         each stage, a read-delivery plan and a write-acceptance plan per stage: chunking, EINTR, at most one hard read error). \
         A case is one encode|decode pipeline (2 simulated processes) or one malformed decode. distinct_nontrivial counts distinct \
         whole-case hashes among cases in which at least one planned fault actually fired in a process (short read, EINTR, hard \
         error, short write) or a malformed input was refused; fault-free well-formed round trips are counted in evaluations only."
            .into()
    }
    fn assumptions(&self) -> Vec<String> {
        vec![
            "stdin and input files are regular files delivered through the interposed read(2); pipes/ttys differ only in the short-read/EINTR behaviour that the plan simulates".into(),
            "hard write errors (EPIPE, ENOSPC) are not injected: the property says nothing about output failure".into(),
            "ASCII whitespace space, tab, CR, LF, FF must be ignored; vertical tab and non-ASCII whitespace are only held to delivery independence; 0X is not treated as the documented prefix".into(),
            "the layout/case/prefix clauses are pure input properties: they are sampled by this workload, not decided by simulation".into(),
        ]
    }
    fn components(&self) -> serde_json::Value {
        json!({
            "real": ["hdwallet binary built from /repo working tree (release, overflow-checks, debug-assertions)", "std buffering, LineWriter, read_to_end, fs::read", "kernel, loader, allocator"],
            "simulated": ["read(2) on fd 0 and on input files", "write(2) on fd 1"],
            "stub": []
        })
    }
    fn required_probes(&self) -> Vec<String> {
        vec![
            "eintr_on_last_read_before_eof".into(),
            "write_split_mid_output".into(),
            "hard_error_before_eof_fired".into(),
        ]
    }
}
