//! C12 at the library boundary: several tasks call `Mnemonic::random`
//! concurrently under the seeded scheduler; the entropy device is a
//! scheduling point before and after it fills the caller's buffer, so any
//! state shared between concurrent generations can be interleaved.

use crate::e2proto::*;
use crate::exec::{exec, panic_fingerprint, Cmd, Ctx, E2Params, HarnessError, Status};
use crate::framework::RunReport;
use crate::prng::{Fnv, Rng};
use crate::refmodel as rm;
use serde::{Deserialize, Serialize};
use serde_json::json;
use std::path::Path;

#[derive(Clone, Debug, Serialize, Deserialize, PartialEq, Eq)]
pub struct LibCase {
    pub tasks: u32,
    pub length: u32,
    pub calls: u32,
    pub entropy: Vec<EntResp>,
    pub sched: SchedSpec,
    /// run as real threads (`libprobe`) under the preload shim's scheduler (engine E3)
    /// instead of shuttle tasks in the E2 executor
    #[serde(default)]
    pub e3: bool,
}

impl LibCase {
    pub fn run(&self, ctx: &Ctx, dir: &Path) -> Result<RunReport, HarnessError> {
        let mut rep = RunReport::default();
        for p in ["lib_generations_interleaved", "lib_failure_delivered"] {
            rep.probe(p, false);
        }
        let requests = (self.tasks * self.calls) as usize;
        if !self.e3 && crate::exec::E2_UNUSABLE.load(std::sync::atomic::Ordering::Relaxed) >= 3 {
            let mut c = self.clone();
            c.e3 = true;
            if c.sched.policy == "trace" || c.sched.policy == "pct" {
                c.sched = SchedSpec { policy: "random".into(), seed: c.sched.seed, param: 0, horizon: 64, trace: vec![] };
            }
            return c.run(ctx, dir);
        }
        rep.probe("lib_scenario_on_real_threads_e3", self.e3);
        let cmd = Cmd {
            argv: if self.e3 {
                vec![self.tasks.to_string(), self.length.to_string(), self.calls.to_string()]
            } else {
                vec!["new".into()]
            },
            entropy: self.entropy.clone(),
            tail: None,
            e3: self.e3,
            libprobe: self.e3,
            e2: Some(E2Params {
                sched: self.sched.clone(),
                max_steps: (200 + 40 * (requests + self.tasks as usize)) as u32,
                generous_bound: 1_000_000,
                generous_requests: 0,
                lib_tasks: self.tasks,
                lib_len: self.length,
                lib_calls: self.calls,
            }),
            ..Cmd::default()
        };
        let o = exec(ctx, dir, &cmd)?;
        rep.procs = 1;
        rep.syscalls = o.ent.len() as u64;
        rep.fault_free = !self
            .entropy
            .iter()
            .any(|r| matches!(r, EntResp::Fail { .. }));
        if !self.e3 && o.status == Status::Timeout {
            // the library holds a real std lock across the entropy call: shuttle cannot model that,
            // the shim's scheduler (real threads, futex-level blocking) can
            let mut c = self.clone();
            c.e3 = true;
            if c.sched.policy == "trace" || c.sched.policy == "pct" {
                c.sched = SchedSpec { policy: "random".into(), seed: c.sched.seed, param: 0, horizon: 64, trace: vec![] };
            }
            let mut r = c.run(ctx, dir)?;
            crate::exec::E2_UNUSABLE.fetch_add(1, std::sync::atomic::Ordering::Relaxed);
            r.probe("lib_e2_stalled_real_threads_verdict_used", true);
            return Ok(r);
        }
        let mut o = o;
        if self.e3 {
            // the probe prints its results; turn them into the history's lib_results
            let text = o.stdout_str();
            if let Some(h) = o.e2.as_mut() {
                for line in text.lines() {
                    let f: Vec<&str> = line.splitn(4, ' ').collect();
                    if f.len() == 4 && (f[2] == "ok" || f[2] == "err") {
                        h.lib_results.push(LibResult {
                            task: f[0].parse().unwrap_or(0),
                            call: f[1].parse().unwrap_or(0),
                            ok: f[2] == "ok",
                            text: f[3].to_string(),
                        });
                    }
                }
            }
        }
        let Some(h) = &o.e2 else {
            if o.status == Status::Timeout {
                return Err(HarnessError("library scenario did not finish".into()));
            }
            return Err(HarnessError(format!(
                "library scenario left no history: {:?}",
                o.status
            )));
        };
        rep.sched_steps = h.steps as u64;
        let eng = if self.e3 { "E3" } else { "E2" };
        let label = format!(
            "{} tasks x {} x Mnemonic::random(English, {})",
            self.tasks, self.calls, self.length
        );
        if !self.e3 && (!h.panics.is_empty() || h.end != "exit") {
            // E2 shares one OS thread (and its real thread-locals) between all tasks and cannot see
            // real std locks: a panic or a hang of the library scenario there is only believed if
            // real threads under the shim's scheduler show one too (cf. NewCase)
            let mut c = self.clone();
            c.e3 = true;
            if c.sched.policy == "trace" || c.sched.policy == "pct" || c.sched.policy == "stall" {
                c.sched = SchedSpec { policy: "random".into(), seed: c.sched.seed, param: 0, horizon: 64, trace: vec![] };
            }
            let mut r = c.run(ctx, dir)?;
            r.probe("lib_e2_c17_violation_real_threads_verdict_used", true);
            return Ok(r);
        }
        for p in &h.panics {
            rep.violate(
                "C17",
                "panic",
                panic_fingerprint(&p.loc, &p.msg),
                format!(
                    "[{eng} lib] {label}: task {} panicked at {}: {}",
                    p.task, p.loc, p.msg
                ),
            );
        }
        if h.end != "exit" {
            rep.violate(
                "C17",
                "hang",
                format!("lib|{}", h.end),
                format!("[{eng} lib] {label}: ended with {} {}", h.end, h.detail),
            );
        }
        let ent_len = rm::entropy_len(self.length as usize);
        // interleaving probe: some request of task A lies between two requests of task B
        let order: Vec<u32> = h.entropy.iter().map(|e| e.task).collect();
        let interleaved = order.windows(3).any(|w| w[0] == w[2] && w[0] != w[1])
            || (self.calls == 1 && h.preemptions > 0);
        rep.probe("lib_generations_interleaved", interleaved);
        let fired_fail = h.entropy.iter().filter(|e| !e.ok).count() as u64;
        rep.probe("lib_failure_delivered", fired_fail > 0);
        rep.fault(
            "entropy_failure",
            self.entropy
                .iter()
                .filter(|r| matches!(r, EntResp::Fail { .. }))
                .count() as u64,
            fired_fail,
        );
        rep.fault("schedule_preemption", 1, h.preemptions as u64);
        rep.nontrivial = h.preemptions > 0 || fired_fail > 0;

        for t in 1..=self.tasks {
            let evs: Vec<&EntEvent> = h.entropy.iter().filter(|e| e.task == t).collect();
            let res: Vec<&LibResult> = h.lib_results.iter().filter(|r| r.task == t).collect();
            match ent_len {
                None => {
                    if !evs.is_empty() || res.iter().any(|r| r.ok) {
                        rep.violate("C12", "unsupported-length-accepted", "lib|len", format!("[{eng} lib] {label}: task {t} got a phrase or drew entropy for an unsupported length"));
                    }
                }
                Some(el) => {
                    use crate::cases::newcase::carries;
                    for ev in &evs {
                        if (ev.len as usize) < el {
                            rep.violate(
                                "C12",
                                "request-size",
                                "lib|reqlen",
                                format!("[{eng} lib] {label}: task {t} requested {} bytes, ENT is {el}", ev.len),
                            );
                        }
                    }
                    // every returned phrase carries bytes that were delivered to THIS task's own
                    // requests (any of them: an implementation may read ahead), no two of a task's
                    // phrases carry the same bytes, and a task whose request failed reports an error
                    let mut seen: Vec<String> = Vec::new();
                    for r in res.iter().filter(|r| r.ok) {
                        let e = rm::bip39_decode(&r.text).ok().map(hex::encode).unwrap_or_default();
                        let own = evs.iter().any(|ev| ev.ok && carries(&ev.bytes, &e));
                        if !own {
                            let whose = h.entropy.iter().find(|x| x.ok && carries(&x.bytes, &e)).map(|x| x.task);
                            rep.violate(
                                "C12",
                                "entropy-not-from-own-request",
                                "lib|crossed",
                                format!(
                                    "[{eng} lib] {label}: task {t} call {} returned {:?} (entropy {e}); its own requests were delivered [{}]{}",
                                    r.call,
                                    r.text.chars().take(100).collect::<String>(),
                                    evs.iter().map(|ev| if ev.ok { ev.bytes.clone() } else { format!("FAIL {}", ev.errno) }).collect::<Vec<_>>().join(", "),
                                    whose.map(|w| format!(" — those are bytes delivered to task {w}")).unwrap_or_else(|| " — no request was ever delivered those bytes".into())
                                ),
                            );
                        }
                        if seen.contains(&e) {
                            rep.violate(
                                "C12",
                                "entropy-repeated",
                                "lib|repeated",
                                format!("[{eng} lib] {label}: task {t} returned the same entropy {e} for two generations"),
                            );
                        }
                        seen.push(e);
                    }
                    // EINTR is transient (see NewCase): it may be retried or reported
                    let failed = evs.iter().filter(|ev| !ev.ok && ev.errno != 4).count();
                    let interrupted = evs.iter().any(|ev| !ev.ok && ev.errno == 4);
                    let errs = res.iter().filter(|r| !r.ok).count();
                    if h.end == "exit" && failed > 0 && errs == 0 {
                        rep.violate(
                            "C12",
                            "entropy-failure-ignored",
                            "lib|failure",
                            format!("[{eng} lib] {label}: {failed} entropy request(s) of task {t} failed, yet all of its {} generations returned a phrase", res.len()),
                        );
                    }
                    if h.end == "exit" && failed == 0 && !interrupted && errs > 0 {
                        rep.violate(
                            "C12",
                            "spurious-error",
                            "lib|spurious",
                            format!("[{eng} lib] {label}: task {t} reported {errs} error(s) although none of its entropy requests failed"),
                        );
                    }
                }
            }
        }
        let mut sh = Fnv::new();
        sh.write_u64(self.tasks as u64);
        sh.write_u64(self.length as u64);
        sh.write_u64(self.calls as u64);
        for (i, r) in self.entropy.iter().enumerate() {
            if matches!(r, EntResp::Fail { .. }) {
                sh.write_u64(i as u64);
            }
        }
        sh.write(h.sched_hash.as_bytes());
        rep.shape = sh.finish();
        rep.event_hash = o.event_hash();
        rep.explicit_choices = Some(h.choices.clone());
        rep.schedule_id = Some(crate::prng::fnv1a(
            format!("{}|{:?}", h.sched_hash, h.choices).as_bytes(),
        ));
        rep.history = json!({
            "engine": "E2 (library scenario)", "scenario": label,
            "sched": {"policy": self.sched.policy, "seed": self.sched.seed},
            "entropy_log": h.entropy.iter().map(|e| format!("#{} task{} len{} {}", e.seq, e.task, e.len, if e.ok { e.bytes.clone() } else { format!("FAIL errno {}", e.errno) })).collect::<Vec<_>>(),
            "results": h.lib_results.iter().map(|r| format!("task{} call{} ok={} {}", r.task, r.call, r.ok, r.text.chars().take(60).collect::<String>())).collect::<Vec<_>>(),
            "schedule_choices": h.choices, "steps": h.steps,
        });
        Ok(rep)
    }

    pub fn explicit(&self, rep: &RunReport) -> Option<LibCase> {
        if self.sched.policy == "trace" {
            return None;
        }
        let mut c = self.clone();
        c.sched = SchedSpec::trace(rep.explicit_choices.clone()?);
        Some(c)
    }

    pub fn reseeded(&self, k: u64) -> Option<LibCase> {
        let mut c = self.clone();
        c.sched = SchedSpec {
            policy: "random".into(),
            seed: 0x11b_0000 + k,
            param: 0,
            horizon: 64,
            trace: vec![],
        };
        Some(c)
    }

    pub fn shrink_candidates(&self) -> Vec<LibCase> {
        let mut out = Vec::new();
        if self.tasks > 2 {
            let mut c = self.clone();
            c.tasks -= 1;
            out.push(c);
        }
        if self.calls > 1 {
            let mut c = self.clone();
            c.calls -= 1;
            out.push(c);
        }
        if self.length != 12 && rm::entropy_len(self.length as usize).is_some() {
            let mut c = self.clone();
            c.length = 12;
            for r in c.entropy.iter_mut() {
                if let EntResp::Ok(h) = r {
                    h.truncate(32);
                }
            }
            out.push(c);
        }
        for i in 0..self.entropy.len() {
            if matches!(self.entropy[i], EntResp::Fail { .. }) {
                let mut c = self.clone();
                c.entropy[i] = EntResp::ok(&vec![
                    i as u8;
                    rm::entropy_len(self.length as usize)
                        .unwrap_or(16)
                ]);
                out.push(c);
            }
        }
        if self.sched.policy == "trace" {
            let t = &self.sched.trace;
            for keep in [0, t.len() / 2, t.len().saturating_sub(1)] {
                if keep < t.len() {
                    let mut c = self.clone();
                    c.sched.trace.truncate(keep);
                    out.push(c);
                }
            }
            for i in 1..t.len().min(40) {
                if t[i] != t[i - 1] {
                    let mut c = self.clone();
                    c.sched.trace[i] = t[i - 1];
                    out.push(c);
                }
            }
        }
        out
    }
}

pub fn gen_lib_case(rng: &mut Rng) -> LibCase {
    let tasks = rng.range(2, 4) as u32;
    let calls = rng.range(1, 3) as u32;
    let length = if rng.chance(5, 6) {
        *rng.pick(&[12u32, 15, 18, 21, 24])
    } else {
        rng.range(0, 40) as u32
    };
    let el = rm::entropy_len(length as usize).unwrap_or(16);
    let n = (tasks * calls) as usize;
    let mut entropy: Vec<EntResp> = (0..n).map(|_| EntResp::ok(&rng.bytes(el))).collect();
    if rng.chance(1, 3) {
        let i = rng.usize_below(n);
        entropy[i] = EntResp::Fail {
            errno: 5,
            partial: if rng.coin() {
                hex::encode(rng.bytes(el))
            } else {
                String::new()
            },
        };
    }
    let sched = super::newcase::gen_sched(rng, tasks as usize, n);
    // The library scenario runs as real threads under the shim's scheduler (E3). The library is
    // outside the E2 seam, so E2 has no scheduling point in it that E3 lacks (the device, before
    // and after the fill), while E2's tasks share one OS thread's real thread-locals — a per-thread
    // pool in the library would look shared there. (The E2 path remains for replay files.)
    let e3 = true;
    let _ = rng.chance(1, 3);
    LibCase {
        tasks,
        length,
        calls,
        entropy,
        sched,
        e3,
    }
}
