//! C17, second half: the global invariant of every simulated process —
//! exit status in {0, 2, 255}, no signal, termination — driven by a
//! boundary-biased workload over every user-reachable parser. This half is
//! input sampling run *by* the simulator, not decided by it (DESIGN.md §5.3).

use super::iogen;
use crate::e2proto::EntResp;
use crate::exec::{exec, panic_fingerprint, Cmd, Ctx, HarnessError, NamedFile, Status};
use crate::framework::RunReport;
use crate::prng::{Fnv, Rng};
use crate::refmodel as rm;
use ethnum::U256;
use serde::{Deserialize, Serialize};
use serde_json::json;
use std::path::Path;

#[derive(Clone, Debug, Serialize, Deserialize, PartialEq, Eq)]
pub struct CrashCase {
    /// parser family, for the per-parser counts in the evidence
    pub family: String,
    pub cmd: Cmd,
}

pub const FAMILIES: [&str; 9] = [
    "mnemonic",
    "path-index",
    "signature",
    "digest",
    "transaction",
    "typeddata",
    "hex",
    "new-args",
    "message",
];

pub const GANACHE: &str =
    "myth like bonus scare over problem client lizard pioneer submit female collect";

impl CrashCase {
    pub fn run(&self, ctx: &Ctx, dir: &Path) -> Result<RunReport, HarnessError> {
        let mut rep = RunReport::default();
        for f in FAMILIES {
            rep.probe(&format!("family:{f}"), f == self.family);
        }
        let o = exec(ctx, dir, &self.cmd)?;
        rep.procs = 1;
        rep.fault_free =
            self.cmd.rplan.is_empty() && self.cmd.fplan.is_empty() && self.cmd.wplan.is_empty();
        let fr = iogen::fired(&o.io, 'R');
        let ff = iogen::fired(&o.io, 'F');
        let fw = iogen::fired(&o.io, 'W');
        let (c, e, h) = iogen::configured(&self.cmd.rplan);
        rep.fault("stdin_short_read", c, fr.short);
        rep.fault("stdin_eintr", e, fr.eintr);
        rep.fault("stdin_hard_error", h, fr.hard);
        let (c, e, h) = iogen::configured(&self.cmd.fplan);
        rep.fault("file_short_read", c, ff.short);
        rep.fault("file_eintr", e, ff.eintr);
        rep.fault("file_hard_error", h, ff.hard);
        let (c, e, _) = iogen::configured(&self.cmd.wplan);
        rep.fault("stdout_short_write", c, fw.short);
        rep.fault("stdout_eintr", e, fw.eintr);
        rep.syscalls = fr.calls + ff.calls + fw.calls + o.ent.len() as u64;
        let argv = self.cmd.argv.join(" ");
        let argv = if argv.len() > 300 {
            format!(
                "{}…",
                &argv[..argv
                    .char_indices()
                    .take(300)
                    .last()
                    .map(|(i, _)| i)
                    .unwrap_or(0)]
            )
        } else {
            argv
        };
        let outcome_class = match &o.status {
            Status::Exit(0) => "ok",
            Status::Exit(2) => "usage",
            Status::Exit(255) => "error",
            Status::Exit(101) => {
                let (loc, msg) = o.panic_site().unwrap_or_default();
                rep.violate(
                    "C17",
                    "panic",
                    panic_fingerprint(&loc, &msg),
                    format!("[E1] `{argv}` ({}): panicked at {loc}: {msg}", self.family),
                );
                "panic"
            }
            // any other non-zero status is an ordinary error too (the property asks for "non-zero
            // exit and a message", not for a particular number); 134..=159 would be a shell's
            // rendering of a signal and never appears here (signals are reported as such)
            Status::Exit(_) => "error",
            Status::Signal(s) => {
                let what = o
                    .stderr
                    .lines()
                    .find(|l| l.contains("overflow") || l.contains("abort"))
                    .unwrap_or("")
                    .to_string();
                rep.violate(
                    "C17",
                    "abort",
                    format!("{}|signal {s}", self.family),
                    format!("[E1] `{argv}`: killed by signal {s} {what}"),
                );
                "signal"
            }
            Status::Timeout => {
                rep.violate(
                    "C17",
                    "hang",
                    format!("{}|timeout", self.family),
                    format!("[E1] `{argv}`: still running after the wall-clock limit"),
                );
                "timeout"
            }
        };
        rep.probe(&format!("outcome:{outcome_class}"), true);
        // distinct = (family, outcome class, stderr message stem); non-trivial = the parser got past clap
        let mut sh = Fnv::new();
        sh.write(self.family.as_bytes());
        sh.write(serde_json::to_string(&self.cmd).unwrap().as_bytes());
        rep.shape = sh.finish();
        rep.nontrivial = !matches!(o.status, Status::Exit(2));
        rep.event_hash = o.event_hash();
        rep.history = json!({
            "family": self.family,
            "argv": self.cmd.argv.iter().map(|a| if a.len() > 400 { format!("{}…", a.chars().take(400).collect::<String>()) } else { a.clone() }).collect::<Vec<_>>(),
            "files": self.cmd.files.iter().map(|f| json!({"name": f.name, "text": String::from_utf8_lossy(&f.data[..f.data.len().min(600)])})).collect::<Vec<_>>(),
            "stdin_len": self.cmd.stdin.as_ref().map(|s| s.len()),
            "status": format!("{:?}", o.status),
            "stdout": o.stdout_str().chars().take(200).collect::<String>(),
            "stderr": o.stderr.lines().next().unwrap_or("").chars().take(200).collect::<String>(),
        });
        Ok(rep)
    }

    pub fn shrink_candidates(&self) -> Vec<CrashCase> {
        let mut out: Vec<CrashCase> = Vec::new();
        let mut push = |c: CrashCase| {
            if c != *self && !out.contains(&c) {
                out.push(c);
            }
        };
        for k in 0..3 {
            let mut c = self.clone();
            match k {
                0 => c.cmd.rplan.clear(),
                1 => c.cmd.wplan.clear(),
                _ => c.cmd.fplan.clear(),
            }
            push(c);
        }
        // drop optional trailing argument pairs (flags start with --)
        let n = self.cmd.argv.len();
        for i in (1..n).rev() {
            if self.cmd.argv[i].starts_with("--") {
                let mut c = self.clone();
                let takes_value = i + 1 < n && !self.cmd.argv[i + 1].starts_with("--");
                c.cmd.argv.drain(i..if takes_value { i + 2 } else { i + 1 });
                push(c);
            }
        }
        // structural shrinking of JSON inputs, textual shrinking otherwise
        for (fi, f) in self.cmd.files.iter().enumerate() {
            for smaller in shrink_bytes(&f.data) {
                let mut c = self.clone();
                c.cmd.files[fi].data = smaller;
                push(c);
            }
        }
        if let Some(s) = &self.cmd.stdin {
            for smaller in shrink_bytes(s) {
                let mut c = self.clone();
                c.cmd.stdin = Some(smaller);
                push(c);
            }
        }
        // shrink long string arguments
        for (i, a) in self.cmd.argv.iter().enumerate() {
            if a.len() > 8 && !a.starts_with("--") {
                for keep in [a.len() / 2, a.len() - 1] {
                    if let Some((cut, _)) = a.char_indices().nth(keep) {
                        let mut c = self.clone();
                        c.cmd.argv[i] = a[..cut].to_string();
                        push(c);
                    }
                }
                if let Some((cut, _)) = a.char_indices().nth(1) {
                    let mut c = self.clone();
                    c.cmd.argv[i] = a[cut..].to_string();
                    push(c);
                }
            }
        }
        out
    }
}

fn shrink_json(v: &serde_json::Value, out: &mut Vec<serde_json::Value>, budget: &mut usize) {
    use serde_json::Value as V;
    if *budget == 0 {
        return;
    }
    match v {
        V::Object(m) => {
            for k in m.keys() {
                if *budget == 0 {
                    return;
                }
                *budget -= 1;
                let mut m2 = m.clone();
                m2.remove(k);
                out.push(V::Object(m2));
            }
            for (k, child) in m {
                let mut subs = Vec::new();
                shrink_json(child, &mut subs, budget);
                for s in subs {
                    let mut m2 = m.clone();
                    m2.insert(k.clone(), s);
                    out.push(V::Object(m2));
                }
            }
        }
        V::Array(a) => {
            for i in 0..a.len() {
                if *budget == 0 {
                    return;
                }
                *budget -= 1;
                let mut a2 = a.clone();
                a2.remove(i);
                out.push(V::Array(a2));
            }
            for (i, child) in a.iter().enumerate() {
                let mut subs = Vec::new();
                shrink_json(child, &mut subs, budget);
                for s in subs {
                    let mut a2 = a.clone();
                    a2[i] = s;
                    out.push(V::Array(a2));
                }
            }
        }
        V::String(s) if s.len() > 4 => {
            *budget = budget.saturating_sub(1);
            out.push(V::String(
                s[..s
                    .char_indices()
                    .nth(s.chars().count() / 2)
                    .map(|(i, _)| i)
                    .unwrap_or(0)]
                    .to_string(),
            ));
        }
        _ => {}
    }
}

fn shrink_bytes(data: &[u8]) -> Vec<Vec<u8>> {
    let mut out = Vec::new();
    if let Ok(v) = serde_json::from_slice::<serde_json::Value>(data) {
        let mut subs = Vec::new();
        let mut budget = 60usize;
        shrink_json(&v, &mut subs, &mut budget);
        for s in subs {
            out.push(serde_json::to_vec(&s).unwrap());
        }
    } else if data.len() > 1 {
        out.push(data[..data.len() / 2].to_vec());
        out.push(data[data.len() / 2..].to_vec());
        out.push(data[..data.len() - 1].to_vec());
        out.push(data[1..].to_vec());
    }
    out
}

// ---------------------------------------------------------------------------
// Workload
// ---------------------------------------------------------------------------

pub const SECP_N: &str = "fffffffffffffffffffffffffffffffebaaedce6af48a03bbfd25e8cd0364141";
pub const SECP_N_MINUS_1: &str = "fffffffffffffffffffffffffffffffebaaedce6af48a03bbfd25e8cd0364140";
pub const TWO_256: &str =
    "115792089237316195423570985008687907853269984665640564039457584007913129639936";

fn pow2(k: u32) -> U256 {
    if k >= 256 {
        U256::MAX
    } else {
        U256::ONE << k
    }
}

/// Number spellings at the boundaries named in C17, as JSON text.
pub fn boundary_number(rng: &mut Rng) -> String {
    let dec = |v: U256| v.to_string();
    // a third of the draws sit within +-40 of a large boundary, in decimal or hex: off-by-a-few
    // bounds (e.g. the EIP-155 limit (2^256-37)/2 = 2^255-19) are hit exactly
    if rng.chance(1, 3) {
        let base = match rng.below(6) {
            0 => pow2(64),
            1 => pow2(128),
            2 => pow2(255),
            3 => (U256::MAX - 36) / 2,
            4 => U256::MAX - 40,
            _ => pow2(255) - 19,
        };
        let d = U256::new(match rng.below(4) {
            0 => rng.below(41),
            _ => rng.below(4),
        } as u128);
        let v = if rng.coin() || base > U256::MAX - 41 {
            base - d.min(base)
        } else {
            base + d
        };
        return match rng.below(3) {
            0 => dec(v),
            1 => format!("\"0x{v:x}\""),
            _ => format!("\"{v}\""),
        };
    }
    match rng.below(22) {
        0 => "0".into(),
        1 => "1".into(),
        2 => dec(pow2(64)),
        3 => dec(pow2(64) - 1),
        4 => dec(pow2(255)),
        5 => dec(pow2(255) - 1),
        6 => dec(U256::MAX),
        7 => TWO_256.into(),
        8 => "-1".into(),
        9 => "1.5".into(),
        10 => "1e80".into(),
        11 => "\"\"".into(),
        12 => "\"0x\"".into(),
        13 => format!("\"{}\"", dec(U256::MAX)),
        14 => format!("\"0x{:x}\"", U256::MAX),
        15 => format!("\"0x{:x}\"", pow2(255)),
        16 => format!("\"0x1{}\"", "0".repeat(64)),
        17 => "\"-0x1\"".into(),
        18 => "1e400".into(),
        19 => format!("{}", rng.next_u64()),
        20 => "null".into(),
        _ => format!("\"0x{:x}\"", rng.next_u64()),
    }
}

/// One JSON string in six gets layout noise (doubled prefix, whitespace, separators, case).
fn noisy_json_hex(rng: &mut Rng, json_text: String) -> String {
    if !rng.chance(1, 6) {
        return json_text;
    }
    match serde_json::from_str::<String>(&json_text) {
        Ok(inner) => serde_json::to_string(&mutate_hex_text(rng, &inner)).unwrap(),
        Err(_) => json_text,
    }
}

fn hex_data(rng: &mut Rng) -> String {
    let t = hex_data_plain(rng);
    noisy_json_hex(rng, t)
}

fn address_text(rng: &mut Rng) -> String {
    let t = address_text_plain(rng);
    noisy_json_hex(rng, t)
}

fn hex_data_plain(rng: &mut Rng) -> String {
    match rng.below(8) {
        0 => "\"0x\"".into(),
        1 => "\"\"".into(),
        2 => "\"0x0\"".into(),
        3 => "\"zz\"".into(),
        4 => "null".into(),
        5 => "12".into(),
        _ => format!("\"0x{}\"", hex::encode(rng.bytes_between(0, 80))),
    }
}

fn address_text_plain(rng: &mut Rng) -> String {
    match rng.below(8) {
        0 => "null".into(),
        1 => "\"0x\"".into(),
        2 => "\"0x00\"".into(),
        3 => format!("\"{}\"", hex::encode(rng.bytes(20))),
        4 => format!("\"0x{}\"", hex::encode(rng.bytes(20)).to_uppercase()),
        5 => format!("\"0x{}\"", hex::encode(rng.bytes(21))),
        _ => format!("\"{}\"", rm::eip55(&rng.bytes(20).try_into().unwrap())),
    }
}

fn num_field(rng: &mut Rng, sane: u64) -> String {
    if rng.chance(1, 3) {
        boundary_number(rng)
    } else {
        format!("{}", rng.below(sane.max(1)))
    }
}

pub fn gen_transaction(rng: &mut Rng, mostly_valid: bool) -> String {
    let kind = rng.below(3);
    let mut f: Vec<(String, String)> = Vec::new();
    let mut put = |k: &str, v: String| f.push((k.to_string(), v));
    let wild = |rng: &mut Rng| !mostly_valid || rng.chance(1, 6);
    let n = |rng: &mut Rng, sane: u64| {
        if wild(rng) {
            num_field(rng, sane)
        } else {
            format!("{}", rng.below(sane))
        }
    };
    put("nonce", n(rng, 1000));
    put("gas", n(rng, 10_000_000));
    put("value", n(rng, 1 << 60));
    put(
        "data",
        if wild(rng) {
            hex_data(rng)
        } else {
            format!("\"0x{}\"", hex::encode(rng.bytes_between(0, 40)))
        },
    );
    if rng.chance(4, 5) {
        put(
            "to",
            if wild(rng) {
                address_text(rng)
            } else {
                format!("\"{}\"", rm::eip55(&rng.bytes(20).try_into().unwrap()))
            },
        );
    }
    match kind {
        0 => {
            put("gasPrice", n(rng, 1 << 40));
            if rng.chance(4, 5) {
                let c = if rng.chance(1, 3) {
                    boundary_number(rng)
                } else {
                    n(rng, 100_000)
                };
                put("chainId", c);
            }
        }
        1 => {
            put("gasPrice", n(rng, 1 << 40));
            put(
                "chainId",
                if rng.chance(1, 4) {
                    boundary_number(rng)
                } else {
                    n(rng, 100_000)
                },
            );
            let w = wild(rng);
            put("accessList", gen_access_list(rng, w));
        }
        _ => {
            put("maxPriorityFeePerGas", n(rng, 1 << 40));
            put("maxFeePerGas", n(rng, 1 << 40));
            put(
                "chainId",
                if rng.chance(1, 4) {
                    boundary_number(rng)
                } else {
                    n(rng, 100_000)
                },
            );
            if rng.coin() {
                let w = wild(rng);
                put("accessList", gen_access_list(rng, w));
            }
        }
    }
    if !mostly_valid {
        // structural mutations
        match rng.below(6) {
            0 => {
                let i = rng.usize_below(f.len());
                f.remove(i);
            }
            1 => {
                let i = rng.usize_below(f.len());
                let d = f[i].clone();
                f.push(d);
            }
            2 => f.push(("unknownField".into(), "1".into())),
            _ => {}
        }
    }
    let body: Vec<String> = f.iter().map(|(k, v)| format!("\"{k}\":{v}")).collect();
    format!("{{{}}}", body.join(","))
}

fn gen_access_list(rng: &mut Rng, wild: bool) -> String {
    if wild && rng.chance(1, 3) {
        return ["null", "{}", "[1]", "[[]]", "[{}]", "\"0x\""][rng.usize_below(6)].into();
    }
    let n = rng.range(0, 3);
    let items: Vec<String> = (0..n)
        .map(|_| {
            let keys: Vec<String> = (0..rng.range(0, 3))
                .map(|_| {
                    if wild && rng.chance(1, 3) {
                        format!("\"0x{}\"", hex::encode(rng.bytes_between(0, 40)))
                    } else {
                        format!("\"0x{}\"", hex::encode(rng.bytes(32)))
                    }
                })
                .collect();
            format!(
                "{{\"address\":\"0x{}\",\"storageKeys\":[{}]}}",
                hex::encode(rng.bytes(20)),
                keys.join(",")
            )
        })
        .collect();
    format!("[{}]", items.join(","))
}

pub fn gen_signature_text(rng: &mut Rng) -> String {
    let scalar = |rng: &mut Rng| -> String {
        match rng.below(7) {
            0 => "0".repeat(64),
            1 => format!("{}1", "0".repeat(63)),
            2 => SECP_N_MINUS_1.into(),
            3 => SECP_N.into(),
            4 => "f".repeat(64),
            _ => hex::encode(rng.bytes(32)),
        }
    };
    let v = match rng.below(8) {
        0 => "00".to_string(),
        1 => "1a".into(),
        2 => "1b".into(),
        3 => "1c".into(),
        4 => "1d".into(),
        5 => "ff".into(),
        6 => "01".into(),
        _ => "1b".into(),
    };
    let mut s = format!("{}{}{}", scalar(rng), scalar(rng), v);
    match rng.below(10) {
        0 => s = format!("0x{s}"),
        1 => {
            let n = rng.usize_below(141);
            s = "a".repeat(n);
        }
        2 => {
            s.truncate(rng.usize_below(s.len() + 1));
        }
        3 => s.push_str("00"),
        4 => s = s.to_uppercase(),
        5 => {
            let i = rng.usize_below(s.len());
            s.replace_range(i..i + 1, "g");
        }
        _ => {}
    }
    s
}

const ATOMS: [&str; 24] = [
    "bool", "address", "bytes", "string", "bytes1", "bytes32", "bytes0", "bytes33", "uint8",
    "uint256", "uint7", "uint0", "uint264", "int8", "int256", "int128", "uint", "int", "bytes١",
    "uint08", "uint 8", "", "uint256 ", "Uint8",
];

fn gen_type_name(rng: &mut Rng, structs: &[String], depth_budget: usize) -> String {
    let mut t = if rng.chance(1, 4) && !structs.is_empty() {
        rng.pick(structs).clone()
    } else if rng.chance(1, 12) {
        "Missing".to_string()
    } else {
        let widths = [8u32, 16, 24, 32, 64, 128, 160, 248, 256];
        match rng.below(6) {
            0 => format!("uint{}", rng.pick(&widths)),
            1 => format!("int{}", rng.pick(&widths)),
            2 => format!("bytes{}", rng.range(1, 32)),
            _ => rng.pick(&ATOMS).to_string(),
        }
    };
    let suffixes = match rng.weighted(&[10, 4, 2, 1]) {
        0 => 0,
        1 => 1,
        2 => rng.range(2, 4) as usize,
        _ => rng.range(5, 64) as usize,
    }
    .min(depth_budget);
    for _ in 0..suffixes {
        match rng.below(6) {
            0 => t.push_str(&format!("[{}]", rng.below(3))),
            1 => t.push_str(
                [
                    // sizes no document can satisfy: 2^64 (not a usize), and usize values whose
                    // product with 32 overflows, exceeds isize::MAX, or is merely absurd
                    "[18446744073709551616]",
                    "[18446744073709551615]",
                    "[9223372036854775808]",
                    "[4611686018427387904]",
                    "[576460752303423488]",
                    "[576460752303423487]",
                    "[1099511627776]",
                    "[4294967296]",
                    "[4294967295]",
                    "[65536]",
                ][rng.usize_below(10)],
            ),
            2 => t.push_str("[-1]"),
            _ => t.push_str("[]"),
        }
    }
    t
}

fn gen_value_for(
    rng: &mut Rng,
    ty: &str,
    types: &[(String, Vec<(String, String)>)],
    depth: usize,
) -> String {
    let mut budget = 1500usize;
    gen_value_budgeted(rng, ty, types, depth, &mut budget)
}

/// `budget` bounds the number of values in one document: nested fixed-size arrays and recursive
/// struct types would otherwise multiply (3^64 elements for `uint8[3]…[3]`).
fn gen_value_budgeted(
    rng: &mut Rng,
    ty: &str,
    types: &[(String, Vec<(String, String)>)],
    depth: usize,
    budget: &mut usize,
) -> String {
    if *budget == 0 {
        // out of budget: the smallest value of the right shape
        return if ty.ends_with(']') {
            "[]".into()
        } else if types.iter().any(|(n, _)| n == ty) {
            "{}".into()
        } else {
            "1".into()
        };
    }
    *budget -= 1;
    if rng.chance(1, 10) {
        // type-confused value
        return ["null", "1", "\"x\"", "[]", "{}", "true", "-1", "1.5"][rng.usize_below(8)].into();
    }
    if let Some(inner) = ty.strip_suffix(']').and_then(|t| t.rsplit_once('[')) {
        let (elem, n) = inner;
        let count = n
            .parse::<usize>()
            .ok()
            .filter(|c| *c < 4)
            .unwrap_or_else(|| rng.range(0, 2) as usize);
        let count = if depth > 70 { count.min(1) } else { count };
        let items: Vec<String> = (0..count)
            .map(|_| gen_value_budgeted(rng, elem, types, depth + 1, budget))
            .collect();
        return format!("[{}]", items.join(","));
    }
    if let Some((_, members)) = types.iter().find(|(n, _)| n == ty) {
        if depth > 100 {
            return "{}".into();
        }
        let stop = depth > 6 && rng.chance(2, 3);
        let mut fields: Vec<String> = Vec::new();
        for (name, t) in members {
            if stop || rng.chance(1, 25) {
                continue;
            }
            fields.push(format!(
                "{}:{}",
                serde_json::to_string(name).unwrap(),
                gen_value_budgeted(rng, t, types, depth + 1, budget)
            ));
        }
        return format!("{{{}}}", fields.join(","));
    }
    if ty.starts_with("uint") || ty.starts_with("int") {
        let signed = ty.starts_with("int");
        let bits: u32 = ty
            .trim_start_matches("uint")
            .trim_start_matches("int")
            .parse()
            .unwrap_or(256);
        let bits = bits.clamp(1, 256);
        return match rng.below(12) {
            0 => "0".into(),
            1 => format!("{}", pow2(bits) - 1),
            2 => {
                if bits == 256 {
                    TWO_256.into()
                } else {
                    format!("{}", pow2(bits))
                }
            }
            3 => format!("{}", pow2(bits - 1)),
            4 => format!("{}", pow2(bits - 1) - 1),
            5 if signed => format!("-{}", pow2(bits - 1)),
            6 if signed => format!("-{}", pow2(bits - 1) + 1),
            7 if signed => "-1".into(),
            8 => format!("\"0x{:x}\"", pow2(bits) - 1),
            9 => boundary_number(rng),
            10 if signed => format!("\"-0x{:x}\"", pow2(bits - 1)),
            _ => format!("{}", rng.below(200)),
        };
    }
    match ty {
        "bool" => ["true", "false", "0", "\"true\""][rng.weighted(&[5, 5, 1, 1])].into(),
        "address" => address_text(rng),
        "string" => ["\"\"", "\"hello\"", "\"\\u0000\"", "\"é🙂\"", "1"][rng.usize_below(5)].into(),
        "bytes" => hex_data(rng),
        t if t.starts_with("bytes") => {
            let n: usize = t[5..].parse().unwrap_or(1);
            match rng.below(6) {
                0 => format!("\"0x{}\"", hex::encode(rng.bytes(n.saturating_sub(1)))),
                1 => format!("\"0x{}\"", hex::encode(rng.bytes(n + 1))),
                2 => hex_data(rng),
                _ => format!("\"0x{}\"", hex::encode(rng.bytes(n.min(64)))),
            }
        }
        _ => "1".into(),
    }
}

pub fn gen_typed_data(rng: &mut Rng, mostly_valid: bool) -> String {
    let domain_members: Vec<(String, String)> = {
        let all = [
            ("name", "string"),
            ("version", "string"),
            ("chainId", "uint256"),
            ("verifyingContract", "address"),
            ("salt", "bytes32"),
        ];
        let mut m: Vec<(String, String)> = all
            .iter()
            .filter(|_| rng.chance(3, 4))
            .map(|(a, b)| (a.to_string(), b.to_string()))
            .collect();
        if !mostly_valid {
            match rng.below(6) {
                0 => m.clear(),
                1 => m.reverse(),
                2 => m.push(("extra".into(), "uint8".into())),
                3 => {
                    if let Some(x) = m.first_mut() {
                        x.1 = "uint8".into();
                    }
                }
                4 => {
                    if let Some(x) = m.first().cloned() {
                        m.push(x);
                    }
                }
                _ => {}
            }
        }
        if m.is_empty() && mostly_valid {
            m.push(("name".into(), "string".into()));
        }
        m
    };
    let nstructs = rng.range(1, 4) as usize;
    let names: Vec<String> = (0..nstructs)
        .map(|i| ["Mail", "Person", "Group", "Node"][i].to_string())
        .collect();
    let mut types: Vec<(String, Vec<(String, String)>)> =
        vec![("EIP712Domain".into(), domain_members)];
    for n in &names {
        let members: Vec<(String, String)> = (0..rng.range(0, 4))
            .map(|i| {
                let depth_budget = if mostly_valid { 3 } else { 64 };
                (format!("f{i}"), gen_type_name(rng, &names, depth_budget))
            })
            .collect();
        types.push((n.clone(), members));
    }
    let primary = if rng.chance(1, 15) {
        "Nope".to_string()
    } else {
        names[0].clone()
    };
    let types_json: Vec<String> = types
        .iter()
        .filter(|(n, _)| mostly_valid || n != "EIP712Domain" || !rng.chance(1, 12))
        .map(|(n, ms)| {
            let ms: Vec<String> = ms
                .iter()
                .map(|(a, b)| {
                    format!(
                        "{{\"name\":{},\"type\":{}}}",
                        serde_json::to_string(a).unwrap(),
                        serde_json::to_string(b).unwrap()
                    )
                })
                .collect();
            format!("\"{n}\":[{}]", ms.join(","))
        })
        .collect();
    let domain = gen_value_for(rng, "EIP712Domain", &types, 0);
    let message = gen_value_for(rng, &primary, &types, 0);
    let message = if message.starts_with('{') {
        message
    } else {
        "{}".into()
    };
    let domain = if domain.starts_with('{') {
        domain
    } else {
        "{}".into()
    };
    format!("{{\"types\":{{{}}},\"primaryType\":\"{primary}\",\"domain\":{domain},\"message\":{message}}}", types_json.join(","))
}

/// Deep nesting up to the JSON parser's limit, and a self-recursive type.
fn gen_nested_typed_data(rng: &mut Rng) -> String {
    let depth = *rng.pick(&[1usize, 10, 50, 100, 126, 127, 128, 129, 200]);
    if rng.coin() {
        // recursive struct Node { next: Node } with a value nested `depth` deep
        let mut v = String::from("{}");
        for _ in 0..depth {
            v = format!("{{\"next\":{v}}}");
        }
        format!(
            "{{\"types\":{{\"EIP712Domain\":[{{\"name\":\"name\",\"type\":\"string\"}}],\"Node\":[{{\"name\":\"next\",\"type\":\"Node\"}}]}},\"primaryType\":\"Node\",\"domain\":{{\"name\":\"x\"}},\"message\":{v}}}"
        )
    } else {
        // uint8[][]...[] with `depth` suffixes and a matching value
        let ty = format!("uint8{}", "[]".repeat(depth));
        let mut v = String::from("1");
        for _ in 0..depth {
            v = format!("[{v}]");
        }
        format!(
            "{{\"types\":{{\"EIP712Domain\":[{{\"name\":\"name\",\"type\":\"string\"}}],\"M\":[{{\"name\":\"a\",\"type\":\"{ty}\"}}]}},\"primaryType\":\"M\",\"domain\":{{\"name\":\"x\"}},\"message\":{{\"a\":{v}}}}}"
        )
    }
}

fn gen_phrase(rng: &mut Rng) -> String {
    let n = match rng.weighted(&[6, 3, 1]) {
        0 => rng.range(0, 40) as usize,
        1 => *rng.pick(&[12usize, 13, 14, 15, 16, 17, 18, 19, 20, 21, 22, 23, 24, 25]),
        _ => *rng.pick(&[0usize, 1, 11, 33, 48]),
    };
    let words = rm::wordlist();
    let mut ws: Vec<String> = if rm::entropy_len(n).is_some() && rng.chance(2, 3) {
        // valid checksum
        rm::bip39_encode(&rng.bytes(n * 4 / 3))
            .unwrap()
            .split(' ')
            .map(String::from)
            .collect()
    } else {
        (0..n)
            .map(|_| words[rng.usize_below(2048)].to_string())
            .collect()
    };
    if !ws.is_empty() {
        match rng.below(12) {
            0 => {
                let i = rng.usize_below(ws.len());
                ws[i] = "notaword".into();
            }
            1 => {
                let i = rng.usize_below(ws.len());
                ws[i] = ws[i].to_uppercase();
            }
            2 => {
                let i = rng.usize_below(ws.len());
                ws[i] = "zoo".into();
            }
            3 => {
                let i = rng.usize_below(ws.len());
                ws[i] = "é".into();
            }
            4 | 5 => {
                // a foreign word: multi-byte characters at every byte offset 0..8, abbreviations and
                // near-misses of list words, so that any byte-indexed "did you mean" logic is exercised
                let i = rng.usize_below(ws.len());
                ws[i] = foreign_word(rng, &ws[i]);
            }
            _ => {}
        }
    }
    let sep = ["  ", " ", "\t", "\n", "\u{3000}", " \u{a0}"][rng.weighted(&[2, 10, 1, 1, 1, 1])];
    ws.join(sep)
}

/// A word that is not in the list: ASCII padding of 0..7 bytes followed by a multi-byte character
/// (2, 3 or 4 bytes) and optionally more, or a prefix / misspelling of a real word.
pub fn foreign_word(rng: &mut Rng, real: &str) -> String {
    const MB: [&str; 10] = ["é", "ñ", "ß", "€", "日", "語", "😀", "𝒳", "\u{301}", "ǅ"];
    match rng.below(5) {
        0 => {
            let pad = rng.usize_below(8);
            let mut w: String = real.chars().filter(|c| c.is_ascii()).take(pad).collect();
            while w.len() < pad {
                w.push('a');
            }
            w.push_str(MB[rng.usize_below(MB.len())]);
            if rng.coin() {
                w.push_str(["k", "er", "", "é", "日本"][rng.usize_below(5)]);
            }
            w
        }
        1 => real.chars().take(rng.range(1, 5) as usize).collect(),
        2 => format!("{real}{}", ["s", "x", "é", "\u{200b}"][rng.usize_below(4)]),
        3 => {
            let mut cs: Vec<char> = real.chars().collect();
            if !cs.is_empty() {
                let i = rng.usize_below(cs.len());
                cs[i] = *rng.pick(&['é', 'x', 'ı', 'İ', 'ß', '0']);
            }
            cs.into_iter().collect()
        }
        _ => ["naïve", "juné", "ju€k", "j😀", "abc😀", "ééé", "日本語", "žluťoučký", "ZOO", "zoö"][rng.usize_below(10)].to_string(),
    }
}

pub fn gen_crash_case(rng: &mut Rng) -> CrashCase {
    let fam = rng.weighted(&[12, 10, 12, 6, 22, 24, 6, 4, 4]);
    let family = FAMILIES[fam].to_string();
    let mut cmd = Cmd::default();
    let acct = |rng: &mut Rng, cmd: &mut Cmd| {
        // account options through flags or the environment
        if rng.coin() {
            cmd.argv.push("--mnemonic".into());
            cmd.argv.push(GANACHE.into());
        } else {
            cmd.env.push(("MNEMONIC".into(), GANACHE.into()));
        }
    };
    let input = |rng: &mut Rng, cmd: &mut Cmd, data: Vec<u8>| {
        // file or stdin, with a benign delivery plan
        if rng.coin() {
            cmd.argv.push("-".into());
            cmd.rplan = iogen::benign_plan(rng, data.len());
            cmd.stdin = Some(data);
        } else {
            cmd.argv.push("in.json".into());
            cmd.fplan = iogen::benign_plan(rng, data.len());
            cmd.files.push(NamedFile {
                name: "in.json".into(),
                data,
            });
        }
    };
    match fam {
        0 => {
            // mnemonic phrases
            let sub = *rng.pick(&["address", "export", "public-key"]);
            cmd.argv = vec![sub.into()];
            let phrase = gen_phrase(rng);
            if rng.chance(3, 4) {
                cmd.argv.push("--mnemonic".into());
                cmd.argv.push(phrase);
            } else {
                cmd.env.push(("MNEMONIC".into(), phrase));
            }
        }
        1 => {
            // paths and indices
            let sub = *rng.pick(&["address", "export", "public-key"]);
            cmd.argv = vec![sub.into()];
            acct(rng, &mut cmd);
            let nums = [
                "0",
                "1",
                "2147483647",
                "2147483648",
                "2147483649",
                "4294967295",
                "4294967296",
                "4294967297",
                "18446744073709551615",
                "18446744073709551616",
                "-1",
                "+1",
                "",
                "1e3",
                "0x10",
                " 1",
            ];
            if rng.coin() {
                let v = rng.pick(&nums).to_string();
                if rng.coin() {
                    cmd.argv.push("--account-index".into());
                    cmd.argv.push(v);
                } else {
                    cmd.env.push(("ACCOUNT_INDEX".into(), v));
                }
            } else {
                let depth = rng.range(0, 8);
                let mut p = String::from(*rng.pick(&["m", "m", "m", "M", "", "n"]));
                for _ in 0..depth {
                    p.push('/');
                    let w: &str = nums[rng.usize_below(nums.len())];
                    p.push_str(w);
                    if rng.coin() {
                        p.push('\'');
                    }
                }
                if rng.chance(1, 8) {
                    p.push('/');
                }
                if rng.coin() {
                    cmd.argv.push("--hd-path".into());
                    cmd.argv.push(p);
                } else {
                    cmd.env.push(("HD_PATH".into(), p));
                }
            }
        }
        2 => {
            // signature text (hash transaction --signature S)
            cmd.argv = vec!["hash".into(), "transaction".into()];
            let tx = gen_transaction(rng, true);
            let sig = gen_signature_text(rng);
            let sig = if rng.chance(1, 4) { mutate_hex_text(rng, &sig) } else { sig };
            cmd.argv.push("--signature".into());
            cmd.argv.push(sig);
            input(rng, &mut cmd, tx.into_bytes());
        }
        3 => {
            // digests (sign raw D)
            cmd.argv = vec!["sign".into()];
            acct(rng, &mut cmd);
            cmd.argv.push("raw".into());
            let d = match rng.below(8) {
                0 => format!("0x{}", "0".repeat(64)),
                1 => "0".repeat(64),
                2 => format!("0x{}", "f".repeat(64)),
                3 => format!("0x{}", hex::encode(rng.bytes(31))),
                4 => format!("0x{}", hex::encode(rng.bytes(33))),
                5 => String::new(),
                6 => format!("0x{}", SECP_N),
                _ => format!("0x{}", hex::encode(rng.bytes(32))),
            };
            let d = if rng.coin() { mutate_hex_text(rng, &d) } else { d };
            cmd.argv.push(d);
        }
        4 => {
            // transaction JSON through sign and hash
            let mostly_valid = rng.chance(2, 3);
            let tx = gen_transaction(rng, mostly_valid);
            if rng.coin() {
                cmd.argv = vec!["sign".into()];
                acct(rng, &mut cmd);
                cmd.argv.push("transaction".into());
                if rng.coin() {
                    cmd.argv.push("--signature-only".into());
                }
                if rng.chance(2, 3) {
                    cmd.argv.push("--allow-missing-relay-protection".into());
                }
            } else {
                cmd.argv = vec!["hash".into(), "transaction".into()];
                if rng.coin() {
                    cmd.argv.push("--signature".into());
                    // a well-formed signature so that encoding with huge chain ids is reached
                    cmd.argv.push(
                        format!(
                            "{}{}{}",
                            hex::encode(rng.bytes(31)).replace(' ', ""),
                            "01",
                            hex::encode(rng.bytes(32))
                        ) + if rng.coin() { "1b" } else { "1c" },
                    );
                }
            }
            input(rng, &mut cmd, tx.into_bytes());
        }
        5 => {
            // typed data through sign and hash
            let doc = match rng.weighted(&[5, 4, 2]) {
                0 => gen_typed_data(rng, true),
                1 => gen_typed_data(rng, false),
                _ => gen_nested_typed_data(rng),
            };
            if rng.chance(1, 3) {
                cmd.argv = vec!["sign".into()];
                acct(rng, &mut cmd);
                cmd.argv.push("typeddata".into());
            } else {
                cmd.argv = vec!["hash".into(), "typeddata".into()];
                if rng.coin() {
                    cmd.argv.push("--message-hash".into());
                }
            }
            input(rng, &mut cmd, doc.into_bytes());
        }
        6 => {
            // arbitrary bytes for hex
            cmd.argv = vec!["hex".into(), (*rng.pick(&["encode", "decode"])).into()];
            let n = rng.range(0, 300) as usize;
            let data = match rng.below(3) {
                0 => rng.bytes(n),
                1 => (0..n)
                    .map(|_| *rng.pick(b"0123456789abcdefABCDEFx \n\t"))
                    .collect(),
                _ => format!("0x{}", hex::encode(rng.bytes(n))).into_bytes(),
            };
            if rng.coin() {
                cmd.rplan = iogen::benign_plan(rng, data.len());
                cmd.stdin = Some(data);
            } else {
                cmd.argv.push("in.json".into());
                cmd.files.push(NamedFile {
                    name: "in.json".into(),
                    data,
                });
            }
            cmd.wplan = iogen::benign_plan(rng, n);
        }
        7 => {
            // new: lengths and prefixes on the real binary, single searcher
            cmd.argv = vec!["new".into()];
            if rng.chance(2, 3) {
                cmd.argv.push("-n".into());
                cmd.argv.push(if rng.coin() {
                    rng.range(0, 40).to_string()
                } else {
                    (*rng.pick(&[
                        "-1",
                        "",
                        "1e1",
                        "18446744073709551615",
                        "18446744073709551616",
                        "12 ",
                    ]))
                    .to_string()
                });
            }
            if rng.coin() {
                cmd.argv.push("--vanity-prefix".into());
                cmd.argv.push(
                    (*rng.pick(&["0x", "0xA", "0xa", "0xG", "a", "", "0x０", "0xAbC"])).to_string(),
                );
                cmd.argv.push("-j".into());
                cmd.argv.push("0".into());
            }
            if rng.chance(1, 4) {
                cmd.argv.push("--language".into());
                cmd.argv
                    .push((*rng.pick(&["english", "ENGLISH", "klingon", "", "İ"])).to_string());
            }
            // any value matches the empty prefix; digit prefixes get a tail planted for them
            let mut tail = rng.bytes(32);
            for (d, want) in [("0xA", "a"), ("0xa", "a"), ("0xAbC", "abc")] {
                if cmd.argv.contains(&d.to_string()) {
                    let len = cmd
                        .argv
                        .iter()
                        .position(|a| a == "-n")
                        .and_then(|i| cmd.argv.get(i + 1))
                        .and_then(|l| l.parse::<usize>().ok())
                        .unwrap_or(12);
                    if let Some(el) = rm::entropy_len(len) {
                        loop {
                            let cand = rng.bytes(el);
                            if let Some(a) = rm::address_of_entropy(&cand, "", &rm::default_path(0))
                            {
                                if rm::has_prefix(&a, want) {
                                    tail = cand;
                                    break;
                                }
                            }
                        }
                    }
                }
            }
            cmd.tail = Some(EntResp::ok(&tail));
        }
        _ => {
            // messages of any content and size
            let n = *rng.pick(&[0usize, 1, 9, 10, 99, 100, 1000, 65536]);
            let data = rng.bytes(n);
            if rng.coin() {
                cmd.argv = vec!["sign".into()];
                acct(rng, &mut cmd);
                cmd.argv.push("message".into());
            } else {
                cmd.argv = vec!["hash".into(), (*rng.pick(&["message", "data"])).into()];
            }
            input(rng, &mut cmd, data);
        }
    }
    CrashCase { family, cmd }
}

/// Enumerated: a legacy transaction whose chain id sits at the EIP-155 limit
/// (2^256-37)/2 - 3 ..= +3, through every command that computes v, with both parities.
pub const CHAIN_ENUM: usize = 7 * 8;

/// Layout noise for a hex-like textual argument (digest, signature): doubled or dropped prefix,
/// interior/leading/trailing whitespace, separators, upper case — half of the time keeping the
/// total number of characters the same by removing as many digits as were inserted, so that a
/// length check on the characters and a decoder that skips some of them disagree.
pub fn mutate_hex_text(rng: &mut Rng, text: &str) -> String {
    let (mut prefix, mut body): (String, Vec<char>) = match text.strip_prefix("0x") {
        Some(b) => ("0x".into(), b.chars().collect()),
        None => (String::new(), text.chars().collect()),
    };
    let keep_len = rng.coin();
    for _ in 0..rng.range(1, 3) {
        let mut inserted = 0usize;
        match rng.below(8) {
            0 => {
                body.splice(0..0, "0x".chars());
                inserted = 2;
            }
            1 => {
                if prefix.is_empty() {
                    prefix = "0x".into();
                } else {
                    prefix.clear();
                }
            }
            2 | 3 => {
                let ws = [' ', '\t', '\n', '\r'][rng.usize_below(4)];
                let n = rng.range(1, 4) as usize;
                for _ in 0..n {
                    let at = rng.usize_below(body.len() + 1);
                    body.insert(at, ws);
                }
                inserted = n;
            }
            4 => {
                let sep = ['_', ':', ',', '-', '+'][rng.usize_below(5)];
                let at = rng.usize_below(body.len() + 1);
                body.insert(at, sep);
                body.insert(at, sep);
                inserted = 2;
            }
            5 => {
                prefix = prefix.to_uppercase();
                body = body.iter().map(|c| c.to_ascii_uppercase()).collect();
            }
            6 => {
                body.insert(0, ' ');
                body.push(' ');
                inserted = 2;
            }
            _ => {
                body.push('\n');
                inserted = 1;
            }
        }
        if keep_len {
            // drop digits from the end so that the character count is what it was
            let mut left = inserted;
            let mut i = body.len();
            while left > 0 && i > 0 {
                i -= 1;
                if body[i].is_ascii_hexdigit() {
                    body.remove(i);
                    left -= 1;
                }
            }
        }
    }
    format!("{prefix}{}", body.into_iter().collect::<String>())
}

/// Enumerated typed-data documents with one `intN` / `uintN` member at every boundary of its range
/// (N = 8, 16, ..., 256; values 0, 2^(N-1)-1, 2^(N-1), 2^N-1, 2^N and their negatives, -2^(N-1)+-1;
/// as a JSON number, a decimal string and a hex string). C17 asks only that the tool neither
/// panics nor hangs on them (whether a value is in range is C09's business, not claimed).
pub const TYPED_INT_ENUM: usize = 32 * 2 * 11 * 3;
pub fn typed_int_boundary_case(idx: usize) -> CrashCase {
    let spelling = idx % 3;
    let kind = (idx / 3) % 11;
    let signed = (idx / 33) % 2 == 1;
    let bits = 8 * (1 + (idx / 66) % 32) as u32;
    // (negative, magnitude as decimal text, magnitude as hex text)
    let dec_hex = |v: U256| (format!("{v}"), format!("{v:x}"));
    let two_n = || {
        if bits == 256 {
            (TWO_256.to_string(), format!("1{}", "0".repeat(64)))
        } else {
            dec_hex(pow2(bits))
        }
    };
    let half = pow2(bits - 1);
    let (neg, (dec, hx)) = match kind {
        0 => (false, dec_hex(U256::ZERO)),
        1 => (false, dec_hex(half - 1)),
        2 => (false, dec_hex(half)),
        3 => (false, dec_hex(if bits == 256 { U256::MAX } else { pow2(bits) - 1 })),
        4 => (false, two_n()),
        5 => (true, dec_hex(U256::ONE)),
        6 => (true, dec_hex(half)),
        7 => (true, dec_hex(half + 1)),
        8 => (true, dec_hex(half - 1)),
        9 => (true, dec_hex(if bits == 256 { U256::MAX } else { pow2(bits) - 1 })),
        _ => (true, two_n()),
    };
    let sign = if neg { "-" } else { "" };
    let value = match spelling {
        0 => format!("{sign}{dec}"),
        1 => format!("\"{sign}{dec}\""),
        _ => format!("\"{sign}0x{hx}\""),
    };
    let ty = format!("{}int{bits}", if signed { "" } else { "u" });
    let doc = format!(
        "{{\"types\":{{\"EIP712Domain\":[{{\"name\":\"name\",\"type\":\"string\"}}],\"T\":[{{\"name\":\"v\",\"type\":\"{ty}\"}}]}},\"primaryType\":\"T\",\"domain\":{{\"name\":\"x\"}},\"message\":{{\"v\":{value}}}}}"
    );
    let mut cmd = Cmd {
        argv: vec!["hash".into(), "typeddata".into(), "in.json".into()],
        ..Cmd::default()
    };
    cmd.files.push(NamedFile {
        name: "in.json".into(),
        data: doc.into_bytes(),
    });
    CrashCase {
        family: "typeddata".into(),
        cmd,
    }
}

pub fn chain_boundary_case(idx: usize) -> CrashCase {
    let delta = (idx / 8) as i64 - 3;
    let k = idx % 8;
    let bound = (U256::MAX - 36) / 2;
    let chain = if delta < 0 {
        bound - U256::new((-delta) as u128)
    } else {
        bound + U256::new(delta as u128)
    };
    let spell = if k % 2 == 0 {
        format!("{chain}")
    } else {
        format!("\"0x{chain:x}\"")
    };
    let tx = |nonce: usize| {
        format!("{{\"chainId\":{spell},\"nonce\":{nonce},\"gasPrice\":1,\"gas\":21000,\"to\":\"0x0000000000000000000000000000000000000000\",\"value\":0,\"data\":\"0x\"}}")
    };
    let r = "11".repeat(32);
    let sv = "22".repeat(32);
    let mut cmd = Cmd::default();
    match k {
        0 | 1 => {
            cmd.argv = vec![
                "hash".into(),
                "transaction".into(),
                "--signature".into(),
                format!("{r}{sv}1b"),
                "in.json".into(),
            ];
            cmd.files.push(NamedFile {
                name: "in.json".into(),
                data: tx(0).into_bytes(),
            });
        }
        2 | 3 => {
            cmd.argv = vec![
                "hash".into(),
                "transaction".into(),
                "--signature".into(),
                format!("{r}{sv}1c"),
                "in.json".into(),
            ];
            cmd.files.push(NamedFile {
                name: "in.json".into(),
                data: tx(0).into_bytes(),
            });
        }
        _ => {
            // signing: the parity depends on the message, so several nonces
            cmd.argv = vec![
                "sign".into(),
                "--mnemonic".into(),
                GANACHE.into(),
                "transaction".into(),
                "in.json".into(),
            ];
            cmd.files.push(NamedFile {
                name: "in.json".into(),
                data: tx(k - 4 + 2 * (idx / 8)).into_bytes(),
            });
        }
    }
    CrashCase {
        family: "transaction".into(),
        cmd,
    }
}
