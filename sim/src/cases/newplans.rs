//! Batches of `new` scenarios for C12, C18 and the threaded half of C17.

use super::newcase::*;
use super::{iogen, AnyCase};
use crate::e2proto::EntResp;
use crate::framework::Plan;
use crate::prng::{run_seed, Rng};
use crate::refmodel as rm;
use serde_json::{json, Value};

const LENGTHS: [usize; 5] = [12, 15, 18, 21, 24];
const WORKER_CHOICES: [usize; 8] = [0, 1, 2, 3, 4, 8, 16, 64];
const WORKER_WEIGHTS: [u64; 8] = [10, 10, 30, 20, 20, 8, 4, 1];

fn components_new() -> Value {
    json!({
        "real": [
            "hdwallet library from /repo (mnemonic, rand::get_entropy, hdk, account) in both engines",
            "src/cmd/new.rs from /repo's working tree in both engines (E2 compiles it with --cfg hdwallet_verif)",
            "E1: the whole binary incl. src/main.rs, clap, std threads/mpsc (single searcher only), std stdout",
            "E2: clap argument parsing, std stdout (process-level capture)",
            "std::sync::OnceLock of the word list (uncontrolled; its initialiser has no scheduling point)"
        ],
        "simulated": [
            "getentropy(3): E1 by LD_PRELOAD, E2 by link-time replacement; a scheduling point before and after the buffer is filled",
            "E2: std::thread and std::sync (mpsc, Mutex, atomics, ...) via shuttle models under our seeded recording scheduler",
            "E1: write(2) on fd 1 (short writes, EINTR)",
            "process exit: E2 exits the OS process at the instant cmd::new::run returns in the main task, workers still suspended"
        ],
        "stub": ["E2: src/main.rs dispatch and exit-code mapping (cross-validated against E1 on single-searcher runs)"]
    })
}

fn fixed_rng(tag: u64, idx: usize) -> Rng {
    Rng::new(tag.wrapping_mul(0x1_0000_0001) ^ (idx as u64).wrapping_mul(0x9E37_79B9))
}

fn random_vanity_spec(rng: &mut Rng, force_e2: bool) -> VanitySpec {
    let workers = WORKER_CHOICES[rng.weighted(&WORKER_WEIGHTS)];
    let digits = match rng.weighted(&[1, 6, 6, 5, 2, 1, 1]) {
        0 => 0,
        1 => 1,
        2 => 2,
        3 => 3,
        4 => rng.range(4, 8) as usize,
        5 => rng.range(9, 39) as usize,
        _ => 40,
    };
    let plant_at = match rng.weighted(&[3, 4, 2]) {
        0 => 0,
        1 => rng.range(1, 4) as usize,
        _ => rng.range(5, 12) as usize,
    };
    let fail_at = if rng.chance(2, 5) {
        Some(rng.usize_below(plant_at + 3))
    } else {
        None
    };
    // one search in 60 is long: a plant 50..70 draws deep with a non-matching aftermath longer than
    // any plausible batch, so candidate pipelines and pools are driven past their first refill
    let deep = rng.chance(1, 60);
    let plant_at = if deep {
        rng.range(50, 70) as usize
    } else if rng.chance(1, 12) {
        rng.range(13, 24) as usize
    } else {
        plant_at
    };
    let after_plant = if deep {
        rng.range(64, 80) as usize
    } else {
        [0usize, 0, 0, 1, 3, 8][rng.usize_below(6)]
    };
    let fail_at = if deep { None } else { fail_at };
    VanitySpec {
        after_plant,
        fail_burst: [1usize, 1, 1, 2, 3, 4][rng.usize_below(6)],
        length: LENGTHS[rng.weighted(&[4, 1, 1, 1, 2])],
        digits,
        case_mode: rng.below(3),
        first_digit: None,
        workers,
        plant_at,
        fail_at,
        engine_e2: force_e2 || workers > 1 || rng.chance(2, 3),
        default_account: rng.chance(1, 3),
    }
}

// ---------------------------------------------------------------------------
// C12
// ---------------------------------------------------------------------------

pub struct C12Plan {
    pub seed: u64,
    pub seeded: usize,
}

const C12_A: usize = 41 * 21;
const C12_B: usize = 5 * 35 * 2;
/// twin generations: 5 lengths x 14 remarkable first values (8 byte patterns, first byte zero, a
/// repeated adjacent word, a repeated distant word, three words in a row, low Hamming weight, high
/// Hamming weight) against an unremarkable one, 20 further distinct values behind both
const C12_T: usize = 5 * 14;

fn has_repeated_word(e: &[u8]) -> bool {
    let Some(p) = rm::bip39_encode(e) else { return false };
    let mut w: Vec<&str> = p.split(' ').collect();
    w.sort_unstable();
    w.windows(2).any(|x| x[0] == x[1])
}

fn set_bits(e: &mut [u8], at: usize, n: usize, v: u32) {
    for k in 0..n {
        let bit = (v >> (n - 1 - k)) & 1;
        let i = at + k;
        if bit == 1 {
            e[i / 8] |= 0x80 >> (i % 8);
        } else {
            e[i / 8] &= !(0x80 >> (i % 8));
        }
    }
}

pub fn c12_twin(idx: usize) -> NewCase {
    let length = LENGTHS[idx / 14];
    let k = idx % 14;
    let ent_len = rm::entropy_len(length).unwrap();
    let mut rng = fixed_rng(0xC127, idx);
    let plain = |rng: &mut Rng| loop {
        let e = rng.bytes(ent_len);
        if !has_repeated_word(&e) && e[0] != 0 {
            break e;
        }
    };
    let first: Vec<u8> = match k {
        0..=7 => pattern(k, ent_len),
        8 => {
            let mut e = plain(&mut rng);
            e[0] = 0;
            e
        }
        9 | 10 | 11 => {
            // word 0 == word 1; word 1 == word 7; words 2, 3, 4 equal
            let mut e = plain(&mut rng);
            let w = rng.below(2048) as u32;
            let at: &[usize] = match k {
                9 => &[0, 1],
                10 => &[1, 7],
                _ => &[2, 3, 4],
            };
            for &i in at {
                set_bits(&mut e, 11 * i, 11, w);
            }
            e
        }
        12 => {
            let mut e = vec![0u8; ent_len];
            e[rng.usize_below(ent_len)] = 1 << rng.below(8);
            e
        }
        _ => {
            let mut e = vec![0xffu8; ent_len];
            e[rng.usize_below(ent_len)] ^= 1 << rng.below(8);
            e
        }
    };
    let mut entropy = vec![EntResp::ok(&first)];
    for _ in 0..20 {
        entropy.push(EntResp::ok(&plain(&mut rng)));
    }
    let e2 = idx % 3 == 2;
    let mut c = NewCase {
        length: Some(length.to_string()),
        entropy,
        tail: Some(EntResp::ok(&plain(&mut rng))),
        reparse: true,
        twin_first: Some(EntResp::ok(&plain(&mut rng))),
        ..NewCase::default()
    };
    if e2 {
        c.e2 = Some(e2_params(&mut rng, 0, 1));
    }
    c
}

fn c12_response(k: usize, len: usize, rng: &mut Rng) -> EntResp {
    let len = if len == 0 { 16 } else { len };
    match k {
        0..=7 => EntResp::ok(&pattern(k, len)),
        8..=15 => EntResp::ok(&rng.bytes(len)),
        16 => EntResp::Fail {
            errno: 5,
            partial: String::new(),
        },
        17 => EntResp::Fail {
            errno: 38,
            partial: String::new(),
        },
        _ => EntResp::Fail {
            errno: 5,
            partial: hex::encode(rng.bytes(len)),
        },
    }
}

impl Plan for C12Plan {
    fn total(&self) -> usize {
        C12_A + C12_B + C12_T + self.seeded
    }
    fn enumerated(&self) -> usize {
        C12_A + C12_B + C12_T
    }
    fn case(&self, idx: usize) -> AnyCase {
        if (C12_A + C12_B..C12_A + C12_B + C12_T).contains(&idx) {
            return AnyCase::New(c12_twin(idx - C12_A - C12_B));
        }
        // the seeded cases keep the numbering they had before the twin family was added
        let idx = if idx >= C12_A + C12_B + C12_T { idx - C12_T } else { idx };
        if idx < C12_A {
            // every requested length 0..=40 x every response kind, real binary
            let length = idx / 21;
            let k = idx % 21;
            let mut rng = fixed_rng(0xC12A, idx);
            let ent_len = rm::entropy_len(length).unwrap_or(length * 4 / 3);
            let resp = c12_response(k.min(18), ent_len, &mut rng);
            let mut c = gen_plain(&mut rng, length, resp, false);
            if k >= 19 {
                // an interrupted source: 3 resp. 5 EINTRs in a row (with and without scribble), then a
                // good value. Failing and retrying are both fine; printing what was never delivered is not.
                let el = if ent_len == 0 { 16 } else { ent_len };
                let n = if k == 19 { 3 } else { 5 };
                c.entropy = (0..n)
                    .map(|i| EntResp::Fail { errno: 4, partial: if i % 2 == 1 { hex::encode(rng.bytes(el / 2)) } else { String::new() } })
                    .collect();
                c.entropy.push(EntResp::ok(&rng.bytes(el)));
                c.tail = Some(EntResp::ok(&rng.bytes(el)));
            }
            if k % 2 == 1 {
                c.wplan.clear();
            }
            return AnyCase::New(c);
        }
        if idx < C12_A + C12_B {
            // single-searcher vanity: every request of the search fails once
            let i = idx - C12_A;
            let j = i % 2;
            let i = i / 2;
            let length = LENGTHS[i / 35];
            let mut r = i % 35;
            let mut p = 0;
            while r >= p + 2 {
                r -= p + 2;
                p += 1;
            }
            // r == 0: no failure; r in 1..=p+1: request r-1 fails
            let mut rng = fixed_rng(0xC12B, idx);
            let spec = VanitySpec {
                after_plant: 0,
                fail_burst: 1,
                length,
                digits: 3,
                case_mode: 0,
                first_digit: None,
                workers: j,
                plant_at: p,
                fail_at: if r == 0 { None } else { Some(r - 1) },
                engine_e2: false,
                default_account: i % 3 == 0,
            };
            return AnyCase::New(gen_vanity(&mut rng, &spec));
        }
        let mut rng = Rng::new(run_seed(self.seed, 0xC12, idx as u64));
        match rng.weighted(&[5, 2, 2, 2]) {
            3 => AnyCase::Lib(super::libcase::gen_lib_case(&mut rng)),
            0 => {
                // threaded search: failures at seeded positions under seeded schedules
                let mut spec = random_vanity_spec(&mut rng, true);
                if spec.workers < 2 {
                    spec.workers = 2 + rng.usize_below(3);
                }
                if spec.fail_at.is_none() && rng.coin() {
                    spec.fail_at = Some(rng.usize_below(spec.plant_at + 2));
                }
                AnyCase::New(gen_vanity(&mut rng, &spec))
            }
            1 => {
                // plain generation through E2 (cross-validated on the real binary)
                let length = if rng.chance(3, 4) {
                    LENGTHS[rng.usize_below(5)]
                } else {
                    rng.range(0, 40) as usize
                };
                let ent_len = rm::entropy_len(length).unwrap_or(16);
                let resp = c12_response(rng.usize_below(19), ent_len, &mut rng);
                AnyCase::New(gen_plain(&mut rng, length, resp, true))
            }
            _ => {
                // single searcher on the real binary with a write plan
                let mut spec = random_vanity_spec(&mut rng, false);
                spec.workers = rng.usize_below(2);
                spec.engine_e2 = false;
                AnyCase::New(gen_vanity(&mut rng, &spec))
            }
        }
    }
    fn rule(&self) -> String {
        format!(
            "Case i is a pure function of (VERIF_SEED, i). Enumerated, seed-independent, real binary (E1): [0,{C12_A}) `new -n L` for every L in 0..=40 x 21 \
             entropy responses (8 degenerate patterns, 8 fixed random values, EIO, ENOSYS, EIO after scribbling the buffer, 3 and 5 EINTRs in a row before a good value); [{C12_A},{}) single-searcher vanity \
             (-j 0 and -j 1) for the 5 lengths x plant position 0..=6 x failure at each request of the search or none. Seeded: 45% threaded vanity search in E2 \
             (2..64 workers, plant 0..12, one failure at a seeded request, seeded scheduler policy random/sticky/PCT-like), 20% plain generation in E2 cross-validated \
             on E1, 20% single-searcher vanity on E1 with a stdout short-write/EINTR plan, 15% library scenario (2..4 tasks x 1..3 concurrent Mnemonic::random calls under the seeded scheduler, each result must carry exactly the bytes delivered to that task's own request). Every successful run feeds the printed phrase back to the real \
             `address --mnemonic`. distinct_nontrivial = distinct (argument classes, failure positions, plan, schedule hash) among runs where an injected entropy \
             failure/degenerate pattern/short write fired or more than one task was actually scheduled.",
            C12_A + C12_B
        )
    }
    fn assumptions(&self) -> Vec<String> {
        vec![
            "provenance is exact membership of the printed phrase's entropy among the byte strings delivered by successful entropy requests of this process; an implementation assembling the entropy from several smaller requests would be flagged (the anchored mechanism is one call filling exactly the entropy slice)".into(),
            "E2 runs are decided under the simulator's scheduler; E1 never issues a verdict on a run with more than one searching thread".into(),
            "reference BIP-39 uses its own copy of the canonical English list (sha256 2f5eed53...dbda)".into(),
            "num_cpus (default of -j) is not simulated: -j is always explicit when a prefix is given".into(),
        ]
    }
    fn components(&self) -> Value {
        components_new()
    }
    fn required_probes(&self) -> Vec<String> {
        vec![
            "entropy_failure_but_another_worker_won".into(),
            "entropy_failure_made_the_command_fail".into(),
            "winner_is_not_first_worker".into(),
            "reparse_by_real_binary".into(),
            "lib_generations_interleaved".into(),
            "lib_failure_delivered".into(),
        ]
    }
}

// ---------------------------------------------------------------------------
// C18
// ---------------------------------------------------------------------------

pub struct C18Plan {
    pub seed: u64,
    pub seeded: usize,
}

const DIGITS22: [&str; 22] = [
    "0", "1", "2", "3", "4", "5", "6", "7", "8", "9", "a", "b", "c", "d", "e", "f", "A", "B", "C",
    "D", "E", "F",
];
const C18_THREADS: [usize; 4] = [0, 1, 2, 16];
const C18_A: usize = 22 * 4;

const NEGATIVE: [(&str, bool); 26] = [
    ("0x+a", false),
    ("0x+1", false),
    ("0x+ab", false),
    ("0xa+", false),
    ("0x-a", false),
    ("0x_a", false),
    ("0xa_", false),
    ("0x\ta", false),
    ("0xa ", false),
    ("0x0x1", false),
    ("0x.1", false),
    ("0x1e1", true), // valid hex, both selectors
    // (prefix, also give both selectors)
    ("0xg", false),
    ("0x1g", false),
    ("0xg1", false),
    ("0x12z", false),
    ("0x 1", false),
    ("0x-1", false),
    ("0x１", false), // full-width digit
    ("0xа", false),  // Cyrillic a
    ("0x0x", false),
    ("ab", false),   // no 0x: open
    ("0Xab", false), // 0X: open
    ("", false),     // empty: open
    ("0x", true),    // both selectors
    ("0xa", true),
];
const C18_B: usize = NEGATIVE.len();
/// three long searches (the quantifier names 3-digit prefixes: thousands of candidates): a single
/// searcher on the real binary and in E2 past its 1000th candidate, two workers past 2000
const C18_C: usize = 3;
/// every prefix length 1..=40 x {exact, last digit wrong, one seeded digit wrong}: "begins with
/// exactly the requested hex digits" needs candidates that ALMOST match, which random values never do
const C18_D: usize = 40 * 3;
/// matches planted at draws around 64, 128 and 256 with worker counts that divide no power of two
/// (3, 5, 7), followed by 300 non-matching values: rounds, batches and per-worker shares with a remainder
const C18_E: usize = 12;

/// A candidate that agrees with the requested prefix in every digit but one is delivered first and
/// then the source fails for good: the search must end in an error, never print the near miss.
/// variant 0 is the positive control (the exact prefix of the same value must be found).
pub fn c18_near_miss(k: usize, variant: usize) -> NewCase {
    let mut rng = fixed_rng(0xC18D, k * 4 + variant);
    let length = [12usize, 15, 18, 21, 24][rng.usize_below(5)];
    let ent_len = rm::entropy_len(length).unwrap();
    let (index, hd_path, path) = if rng.coin() {
        (None, None, rm::default_path(0))
    } else {
        gen_selector(&mut rng)
    };
    let password = if rng.coin() { None } else { gen_password(&mut rng) };
    let pw = password.clone().unwrap_or_default();
    let (near, addr_hex) = plant(&mut rng, ent_len, &pw, &path, None);
    let mut digits: Vec<u8> = addr_hex.as_bytes()[..k].to_vec();
    if variant > 0 {
        let at = if variant == 1 { k - 1 } else { rng.usize_below(k) };
        let old = (digits[at] as char).to_digit(16).unwrap();
        let new = match rng.below(3) {
            0 => old ^ 1,
            1 => old ^ 8,
            _ => (old + 1 + rng.below(15) as u32) % 16,
        };
        digits[at] = char::from_digit(new, 16).unwrap() as u8;
    }
    let digits = mix_case(&mut rng, std::str::from_utf8(&digits).unwrap(), 2);
    let workers = [0usize, 1, 2, 3][(k + variant) % 4];
    let eio = EntResp::Fail { errno: 5, partial: String::new() };
    let mut c = NewCase {
        length: Some(length.to_string()),
        prefix: Some(format!("0x{digits}")),
        password,
        account_index: index,
        hd_path,
        threads: Some(workers.to_string()),
        entropy: if variant == 0 { vec![EntResp::ok(&near)] } else { vec![EntResp::ok(&near), eio.clone()] },
        tail: Some(if variant == 0 { EntResp::ok(&near) } else { eio }),
        reparse: variant == 0,
        ..NewCase::default()
    };
    if workers >= 2 || rng.coin() {
        c.e2 = Some(e2_params(&mut rng, workers, c.entropy.len()));
        c.cross_e1 = workers <= 1;
        c.e3 = workers >= 2 && rng.chance(1, 4);
    }
    c
}

pub fn c18_boundary_plant(k: usize) -> NewCase {
    let (plant_at, workers) = [
        (255usize, 3usize), (256, 3), (257, 3), (255, 7), (256, 7), (257, 7),
        (63, 5), (64, 5), (65, 5), (127, 5), (128, 6), (129, 5),
    ][k];
    let mut rng = fixed_rng(0xC18E, k);
    let spec = VanitySpec {
        after_plant: 300,
        fail_burst: 1,
        length: 12,
        digits: 4,
        case_mode: 2,
        first_digit: None,
        workers,
        plant_at,
        fail_at: None,
        engine_e2: true,
        default_account: true,
    };
    let mut c = gen_vanity(&mut rng, &spec);
    c.reparse = false;
    c
}

impl Plan for C18Plan {
    fn total(&self) -> usize {
        C18_A + C18_B + C18_C + C18_D + C18_E + self.seeded
    }
    fn enumerated(&self) -> usize {
        C18_A + C18_B + C18_C + C18_D + C18_E
    }
    fn case(&self, idx: usize) -> AnyCase {
        let base = C18_A + C18_B + C18_C;
        if (base..base + C18_D).contains(&idx) {
            let j = idx - base;
            return AnyCase::New(c18_near_miss(1 + j / 3, j % 3));
        }
        if (base + C18_D..base + C18_D + C18_E).contains(&idx) {
            return AnyCase::New(c18_boundary_plant(idx - base - C18_D));
        }
        // the seeded cases keep the numbering they had before these families were added
        let idx = if idx >= base + C18_D + C18_E { idx - C18_D - C18_E } else { idx };
        if (C18_A + C18_B..C18_A + C18_B + C18_C).contains(&idx) {
            let k = idx - C18_A - C18_B;
            let mut rng = fixed_rng(0xC18C, idx);
            let spec = VanitySpec {
                after_plant: 0,
                fail_burst: 1,
                length: 12,
                digits: 4,
                case_mode: 2,
                first_digit: None,
                workers: [0usize, 1, 2][k],
                plant_at: [1040usize, 1040, 2300][k],
                fail_at: None,
                engine_e2: k > 0,
                default_account: true,
            };
            let mut c = gen_vanity(&mut rng, &spec);
            if let Some(e2) = c.e2.as_mut() {
                // one worker far ahead of the other
                e2.sched = crate::e2proto::SchedSpec { policy: "sticky".into(), seed: 7, param: 250, horizon: 64, trace: vec![] };
            }
            c.e3 = false;
            return AnyCase::New(c);
        }
        if idx < C18_A {
            // all 16 single digits, letters in both cases, x thread counts 0, 1, 2, 16
            let d = DIGITS22[idx / 4];
            let workers = C18_THREADS[idx % 4];
            let mut rng = fixed_rng(0xC18A, idx);
            let spec = VanitySpec {
                after_plant: 0,
                fail_burst: 1,
                length: 12,
                digits: 1,
                case_mode: if d.bytes().all(|b| b.is_ascii_uppercase()) {
                    1
                } else {
                    0
                },
                first_digit: Some(d.to_ascii_lowercase().as_bytes()[0]),
                workers,
                plant_at: 1 + idx % 3,
                fail_at: None,
                engine_e2: true,
                default_account: idx % 2 == 0,
            };
            return AnyCase::New(gen_vanity(&mut rng, &spec));
        }
        if idx < C18_A + C18_B {
            let (p, both) = NEGATIVE[idx - C18_A];
            let mut rng = fixed_rng(0xC18B, idx);
            let workers = [0usize, 1, 2, 4][idx % 4];
            // any entropy matches the zero-digit prefix; for the open spellings a correct result is acceptable too
            let e = rng.bytes(16);
            let mut c = NewCase {
                prefix: Some(p.to_string()),
                threads: Some(workers.to_string()),
                entropy: vec![EntResp::ok(&e)],
                tail: Some(EntResp::ok(&e)),
                reparse: true,
                ..NewCase::default()
            };
            if both {
                c.account_index = Some("1".into());
                c.hd_path = Some("m/44'/60'/0'/0/1".into());
            }
            // open spellings could start a search for digits the tail never matches: give them a
            // tail whose default-account address starts with the digits that would be searched for
            if p == "ab" || p == "0Xab" {
                let (estar, _) = loop {
                    let (e, a) = plant(&mut rng, 16, "", &rm::default_path(0), Some(b'a'));
                    if a.starts_with("ab") {
                        break (e, a);
                    }
                };
                c.entropy = vec![EntResp::ok(&estar)];
                c.tail = Some(EntResp::ok(&estar));
            }
            c.e2 = Some(e2_params(&mut rng, workers, 1));
            c.cross_e1 = workers <= 1;
            return AnyCase::New(c);
        }
        let mut rng = Rng::new(run_seed(self.seed, 0xC18, idx as u64));
        if rng.chance(1, 8) {
            // a prefix that is not hexadecimal must be refused: one foreign character put
            // into an otherwise valid prefix at a seeded position
            let digits: String = (0..rng.range(0, 5))
                .map(|_| *rng.pick(&['0', '1', '7', '9', 'a', 'c', 'f', 'A', 'E']))
                .collect();
            let junk = [
                "+", "-", "_", " ", "\t", "x", "X", "g", "G", "h", "o", "O", "l", ".", ",", ":",
                "#", "$", "é", "１", "а", "\u{200b}", "0x", "%41",
            ];
            let any_ascii: String;
            let j = if rng.chance(1, 3) {
                // any ASCII character (argv cannot carry NUL) that is not a hex digit
                let c = loop {
                    let c = rng.range(1, 127) as u8;
                    if !c.is_ascii_hexdigit() {
                        break c;
                    }
                };
                any_ascii = (c as char).to_string();
                any_ascii.as_str()
            } else {
                *rng.pick(&junk)
            };
            let at = rng.usize_below(digits.len() + 1);
            let mut d = digits.clone();
            d.insert_str(at, j);
            let workers = [0usize, 1, 2, 3][rng.usize_below(4)];
            let e = rng.bytes(16);
            let mut c = NewCase {
                prefix: Some(format!("0x{d}")),
                threads: Some(workers.to_string()),
                entropy: vec![EntResp::ok(&e)],
                tail: Some(EntResp::ok(&e)),
                reparse: false,
                ..NewCase::default()
            };
            if rng.coin() {
                c.e2 = Some(e2_params(&mut rng, workers, 1));
                c.cross_e1 = workers <= 1;
            }
            debug_assert_eq!(classify_prefix(&c.prefix), PrefixClass::NonHex);
            return AnyCase::New(c);
        }
        let mut spec = random_vanity_spec(&mut rng, false);
        // C18 is about the result of a search that can succeed: failures are C12's subject,
        // keep them rare here
        if rng.chance(3, 4) {
            spec.fail_at = None;
        }
        AnyCase::New(gen_vanity(&mut rng, &spec))
    }
    fn rule(&self) -> String {
        format!(
            "Case i is a pure function of (VERIF_SEED, i). Enumerated: [0,{C18_A}) all 16 one-digit prefixes (letters in both cases) x thread counts 0,1,2,16 in E2 \
             with a planted match; [{C18_A},{}) refused/open spellings (non-hex digit, look-alike digits, missing 0x, 0X, both selectors). Then three long searches (plant at draw 1040 for 0 and 1 workers, 2300 for 2 workers). Seeded: length, prefix of \
             0..40 digits (weighted to 1..3) taken from the reference address of a planted entropy value with per-letter case flips, passphrase (ASCII/non-ASCII), \
             selector (default, account index, explicit path of depth 1..6), workers from {{0,1,2,3,4,8,16,64}}, plant position 0..12, scheduler policy \
             random / sticky / PCT-like with its own seed; single-searcher runs are repeated on the real binary and must agree. distinct_nontrivial = distinct \
             (argument classes, plan, schedule hash) among runs in which more than one task was actually scheduled or an injected fault fired.",
            C18_A + C18_B
        )
    }
    fn assumptions(&self) -> Vec<String> {
        vec![
            "non-planted entropy values are random and may match short prefixes by chance; the oracle evaluates the reference address of whatever was printed, it never assumes they do not match".into(),
            "spellings the statement leaves open (no 0x, 0X…, empty) are accepted either way".into(),
            "bounded liveness: once every entropy response is a match, the command exits within 384+32*workers further entropy requests (and 16 scheduling steps per request) under any schedule — far above the one request per searcher the present code needs, so that batching or polling implementations are not constrained".into(),
        ]
    }
    fn components(&self) -> Value {
        components_new()
    }
    fn required_probes(&self) -> Vec<String> {
        vec![
            "winner_is_not_first_worker".into(),
            "two_or_more_workers_finished_before_exit".into(),
            "worker_still_searching_at_exit".into(),
            "device_turned_generous".into(),
        ]
    }
}

// ---------------------------------------------------------------------------
// C17, threaded half: `new` under schedules, worker counts and faults with
// arguments that make the search fail or die inside a worker.
// ---------------------------------------------------------------------------

pub const C17_WORKERS: [usize; 12] = [0, 1, 2, 3, 4, 5, 6, 7, 8, 16, 32, 64];
pub const C17_TUPLES: usize = 14;
pub const C17_NEW_ENUM: usize = C17_WORKERS.len() * C17_TUPLES;

pub fn c17_new_enumerated(idx: usize) -> NewCase {
    let workers = C17_WORKERS[idx / C17_TUPLES];
    let t = idx % C17_TUPLES;
    let mut rng = fixed_rng(0xC17A, idx);
    let e = rng.bytes(16);
    // zero-digit prefix: every candidate matches, so the run ends whatever account is selected
    let mut c = NewCase {
        prefix: Some("0x".into()),
        threads: Some(workers.to_string()),
        entropy: vec![EntResp::ok(&e), EntResp::ok(&rng.bytes(16))],
        tail: Some(EntResp::ok(&e)),
        reparse: false,
        ..NewCase::default()
    };
    match t {
        0 => {}
        1 => {
            c.entropy[0] = EntResp::Fail {
                errno: 5,
                partial: String::new(),
            }
        }
        2 => {
            // nothing matches until the failure: one-digit prefix the planned values do not have
            let spec = VanitySpec {
                after_plant: 0,
                fail_burst: 1,
                length: 12,
                digits: 2,
                case_mode: 0,
                first_digit: None,
                workers,
                plant_at: 3,
                fail_at: Some(1),
                engine_e2: true,
                default_account: true,
            };
            c = gen_vanity(&mut rng, &spec);
            c.reparse = false;
        }
        3 => c.hd_path = Some("m/44'/x".into()),
        4 => c.account_index = Some("2147483648".into()),
        5 => c.account_index = Some("4294967295".into()),
        6 => c.account_index = Some("4294967296".into()),
        7 => c.account_index = Some("18446744073709551615".into()),
        8 => c.account_index = Some("18446744073709551616".into()),
        9 => c.hd_path = Some("m/44'/60'/0'/0/4294967296".into()),
        10 => c.prefix = Some("0xAB".into()),
        11 => c.length = Some("13".into()),
        12 => c.hd_path = Some("m/".into()),
        _ => c.hd_path = Some(String::new()),
    }
    if t == 10 {
        // an upper-case prefix is valid: plant a match for it
        let spec = VanitySpec {
            after_plant: 0,
            fail_burst: 1,
            length: 12,
            digits: 2,
            case_mode: 1,
            first_digit: Some(b'a'),
            workers,
            plant_at: 1,
            fail_at: None,
            engine_e2: true,
            default_account: true,
        };
        c = gen_vanity(&mut rng, &spec);
        c.reparse = false;
    }
    if c.e2.is_none() {
        c.e2 = Some(e2_params(&mut rng, workers, c.entropy.len()));
    }
    c.cross_e1 = workers <= 1;
    // every third tuple of the small multi-worker counts runs on the real binary under E3
    c.e3 = (2..=16).contains(&workers) && idx % 3 == 0;
    c
}

pub fn c17_deep_search(k: usize) -> NewCase {
    let mut rng = fixed_rng(0xC17D, k);
    let workers = [0usize, 1, 2][k % 3];
    let spec = VanitySpec {
        after_plant: 4,
        fail_burst: 1,
        length: LENGTHS[k / 3],
        digits: 3,
        case_mode: 0,
        first_digit: None,
        workers,
        plant_at: [16usize, 23, 39][k % 3],
        fail_at: None,
        engine_e2: workers > 0,
        default_account: true,
    };
    let mut c = gen_vanity(&mut rng, &spec);
    c.reparse = false;
    c.e3 = false;
    c
}

const JUNK_NUM: [&str; 16] = [
    "0",
    "1",
    "11",
    "12",
    "13",
    "24",
    "25",
    "2147483647",
    "2147483648",
    "4294967295",
    "4294967296",
    "18446744073709551615",
    "18446744073709551616",
    "-1",
    "1e3",
    "",
];
const JUNK_PATH: [&str; 14] = [
    "m/0",
    "m/0'",
    "m/44'/60'/0'/0/0",
    "m",
    "m/",
    "",
    "n/0",
    "m//0",
    "m/0/",
    "m/4294967295",
    "m/4294967296",
    "m/2147483648'",
    "m/-1",
    "m/0x1",
];
const JUNK_PREFIX: [&str; 12] = [
    "0x",
    "0x0",
    "0xA",
    "0xaB",
    "0xABCDEF",
    "0xg",
    "0x0g",
    "ab",
    "0X1",
    "",
    "0x00000000000000000000000000000000000000000",
    "0xé",
];

pub fn c17_new_seeded(rng: &mut Rng) -> NewCase {
    let workers = WORKER_CHOICES[rng.weighted(&WORKER_WEIGHTS)];
    let e = rng.bytes(16);
    let mut c = NewCase {
        threads: Some(workers.to_string()),
        entropy: Vec::new(),
        tail: Some(EntResp::ok(&e)),
        reparse: rng.chance(1, 4),
        ..NewCase::default()
    };
    if rng.chance(5, 6) {
        c.prefix = Some(if rng.chance(2, 3) {
            "0x".into()
        } else {
            rng.pick(&JUNK_PREFIX).to_string()
        });
    }
    if rng.chance(1, 3) {
        c.length = Some(if rng.coin() {
            rng.range(0, 40).to_string()
        } else {
            rng.pick(&JUNK_NUM).to_string()
        });
    }
    if rng.chance(1, 2) {
        c.account_index = Some(rng.pick(&JUNK_NUM).to_string());
    }
    if rng.chance(1, 3) {
        c.hd_path = Some(rng.pick(&JUNK_PATH).to_string());
    }
    if rng.chance(1, 8) {
        // C17 bounds worker counts to 0..=64: junk here is either small or unparsable
        c.threads = Some(
            rng.pick(&["0", "1", "2", "64", "-1", "1e3", "", "18446744073709551616"])
                .to_string(),
        );
    }
    if rng.chance(1, 6) {
        c.password = gen_password(rng);
    }
    if rng.chance(1, 10) {
        c.language = Some(["english", "klingon", ""][rng.usize_below(3)].into());
    }
    // entropy plan: a few values, possibly a failure
    let ent_len = c
        .length
        .as_ref()
        .and_then(|l| l.parse::<usize>().ok())
        .and_then(rm::entropy_len)
        .unwrap_or(16);
    c.tail = Some(EntResp::ok(&rng.bytes(ent_len)));
    for _ in 0..rng.range(0, 4) {
        if rng.chance(1, 5) {
            c.entropy.push(EntResp::Fail {
                errno: 5,
                partial: String::new(),
            });
        } else {
            c.entropy.push(EntResp::ok(&rng.bytes(ent_len)));
        }
    }
    // A prefix with digits could make the search endless (nothing planted): only allow digit
    // prefixes the reference can satisfy through the tail, otherwise fall back to "0x".
    let w = c.workers().min(64);
    if let PrefixClass::Hex(d) = classify_prefix(&c.prefix) {
        if !d.is_empty() {
            let sel = classify_selector(&c.account_index, &c.hd_path);
            let ok = match (
                &sel,
                rm::entropy_len(c.length.as_ref().and_then(|l| l.parse().ok()).unwrap_or(12)),
            ) {
                (Selector::Path(p), Some(el)) if d.len() <= 2 => {
                    let pw = c.password.clone().unwrap_or_default();
                    // find a tail that matches
                    let mut found = None;
                    for _ in 0..4096 {
                        let cand = rng.bytes(el);
                        if let Some(a) = rm::address_of_entropy(&cand, &pw, p) {
                            if rm::has_prefix(&a, &d) {
                                found = Some(cand);
                                break;
                            }
                        }
                    }
                    match found {
                        Some(f) => {
                            c.tail = Some(EntResp::ok(&f));
                            true
                        }
                        None => false,
                    }
                }
                _ => false,
            };
            if !ok {
                c.prefix = Some("0x".into());
            }
        }
    } else if classify_prefix(&c.prefix) == PrefixClass::Open {
        // open spellings might start an endless search; keep them out of the seeded mix
        c.prefix = Some("0x".into());
    }
    c.e2 = Some(e2_params(rng, w, c.entropy.len()));
    c.e3 = (2..=16).contains(&w)
        && c.threads
            .as_ref()
            .and_then(|t| t.parse::<usize>().ok())
            .is_some()
        && rng.chance(1, 5);
    c.cross_e1 = c.prefix.is_none()
        || c.threads
            .as_ref()
            .and_then(|t| t.parse::<usize>().ok())
            .map(|t| t <= 1)
            .unwrap_or(true);
    if !c.cross_e1 {
        c.wplan.clear();
    } else {
        c.wplan = iogen::benign_plan(rng, 100);
    }
    c
}
