//! `hdwallet new …` as a simulated process: C12 (entropy), C18 (vanity
//! search) and the schedule/fault half of C17 share this case type and its
//! judge. Engine E1 (real binary) for single-searcher runs, engine E2
//! (seeded scheduler) for everything with threads.

use super::iogen;
use crate::e2proto::*;
use crate::exec::{
    exec, panic_fingerprint, Cmd, Ctx, E2Params, HarnessError, IoStep, Outcome, Status,
};
use crate::framework::RunReport;
use crate::prng::{Fnv, Rng};
use crate::refmodel::{self as rm, PathComp};
use serde::{Deserialize, Serialize};
use serde_json::json;
use std::path::Path;

#[derive(Clone, Debug, Default, Serialize, Deserialize, PartialEq, Eq)]
pub struct NewCase {
    /// -n
    pub length: Option<String>,
    pub language: Option<String>,
    /// --vanity-prefix
    pub prefix: Option<String>,
    pub password: Option<String>,
    pub account_index: Option<String>,
    pub hd_path: Option<String>,
    /// -j (always given when a prefix is: the default is the host's CPU count)
    pub threads: Option<String>,
    pub entropy: Vec<EntResp>,
    pub tail: Option<EntResp>,
    /// E1 only: acceptance plan of write(1)
    pub wplan: Vec<IoStep>,
    /// Some => engine E2
    pub e2: Option<E2Params>,
    /// feed the printed phrase back to the real `address --mnemonic`
    pub reparse: bool,
    /// E2 single-searcher runs: repeat on the real binary (E1) and compare
    pub cross_e1: bool,
    /// run the scenario on the real binary under the preload shim's thread scheduler
    /// (engine E3) instead of the shuttle executor; `e2` carries the scheduler parameters
    #[serde(default)]
    pub e3: bool,
    /// Generation without a prefix only: run the scenario a second time with the first planned
    /// response replaced by this one and require that whether the command succeeds, and where in
    /// the delivered byte stream the printed entropy lies, do not depend on the VALUES the source
    /// delivered (a conditional redraw makes some phrases impossible: not every bit is the source's).
    #[serde(default)]
    pub twin_first: Option<EntResp>,
}

// ---------------------------------------------------------------------------
// Specification-side reading of the arguments
// ---------------------------------------------------------------------------

#[derive(Clone, Debug, PartialEq, Eq)]
pub enum PrefixClass {
    None,
    /// 0x + 0..=40 hex digits
    Hex(String),
    /// 0x + something that is not a hex digit: must be refused
    NonHex,
    /// spellings the statement leaves open (no 0x, 0X, more than 40 digits)
    Open,
}

pub fn classify_prefix(p: &Option<String>) -> PrefixClass {
    match p {
        None => PrefixClass::None,
        Some(s) => match s.strip_prefix("0x") {
            Some(d) if d.bytes().all(|c| c.is_ascii_hexdigit()) => {
                if d.len() <= 40 {
                    PrefixClass::Hex(d.to_string())
                } else {
                    PrefixClass::Open
                }
            }
            Some(_) => PrefixClass::NonHex,
            None => PrefixClass::Open,
        },
    }
}

#[derive(Clone, Debug, PartialEq, Eq)]
pub enum Selector {
    /// the account the oracle can compute
    Path(Vec<PathComp>),
    /// both selectors given: clap must refuse
    Conflict,
    /// not a number / not a path at all: an ordinary error is the only acceptable outcome besides none
    Malformed,
    /// outside what the statements pin down (index >= 2^31, '+5', ...): only C17 applies
    Open,
}

pub fn parse_path_spec(s: &str) -> Selector {
    let Some(rest) = s.strip_prefix("m/") else {
        return Selector::Malformed;
    };
    let mut comps = Vec::new();
    let mut open = false;
    for c in rest.split('/') {
        let (num, hard) = match c.strip_suffix('\'') {
            Some(n) => (n, true),
            None => (c, false),
        };
        if num.is_empty() {
            return Selector::Malformed;
        }
        if !num.bytes().all(|b| b.is_ascii_digit()) {
            // Rust's integer parser also takes a leading '+': left open
            if num.starts_with('+') && num.len() > 1 && num[1..].bytes().all(|b| b.is_ascii_digit())
            {
                open = true;
                continue;
            }
            return Selector::Malformed;
        }
        match num.parse::<u64>() {
            Ok(v) if v < 0x8000_0000 => comps.push((v as u32, hard)),
            Ok(v) if v <= u32::MAX as u64 => open = true,
            _ => return Selector::Malformed,
        }
    }
    if open {
        Selector::Open
    } else {
        Selector::Path(comps)
    }
}

pub fn classify_selector(index: &Option<String>, path: &Option<String>) -> Selector {
    match (index, path) {
        (Some(_), Some(_)) => Selector::Conflict,
        (None, None) => Selector::Path(rm::default_path(0)),
        (Some(i), None) => {
            if !i.bytes().all(|b| b.is_ascii_digit()) || i.is_empty() {
                return if i.starts_with('+') {
                    Selector::Open
                } else {
                    Selector::Malformed
                };
            }
            match i.parse::<u128>() {
                Ok(v) if v < 0x8000_0000 => Selector::Path(rm::default_path(v as u32)),
                Ok(_) => Selector::Open,
                Err(_) => Selector::Malformed,
            }
        }
        (None, Some(p)) => parse_path_spec(p),
    }
}

fn parse_usize_arg(s: &Option<String>, default: usize) -> Option<usize> {
    match s {
        None => Some(default),
        Some(t) => t.parse::<usize>().ok(),
    }
}

impl NewCase {
    pub fn argv(&self) -> Vec<String> {
        let mut a = vec!["new".to_string()];
        let mut opt = |flag: &str, v: &Option<String>| {
            if let Some(v) = v {
                a.push(flag.to_string());
                a.push(v.clone());
            }
        };
        opt("-n", &self.length);
        opt("--language", &self.language);
        opt("--vanity-prefix", &self.prefix);
        opt("--vanity-password", &self.password);
        opt("--vanity-account-index", &self.account_index);
        opt("--vanity-hd-path", &self.hd_path);
        opt("-j", &self.threads);
        a
    }

    fn cmd(&self, force_e1: bool) -> Cmd {
        let real_binary = force_e1 || self.e2.is_none() || self.e3;
        let mut c = Cmd {
            argv: self.argv(),
            entropy: self.entropy.clone(),
            tail: self.tail.clone(),
            wplan: if real_binary {
                self.wplan.clone()
            } else {
                Vec::new()
            },
            e2: if force_e1 { None } else { self.e2.clone() },
            e3: self.e3 && !force_e1,
            ..Cmd::default()
        };
        if c.e2.is_none() {
            // Single-searcher runs on the real binary ("E1") also go through the shim's thread
            // scheduler, with a fixed seed: there is at most one worker, so it decides nothing, but
            // its step budget and its bound on entropy requests after the device turned generous end
            // a search that cannot succeed after a few milliseconds instead of the 10 s watchdog.
            let w = self.workers().min(64);
            c.e2 = Some(E2Params {
                sched: SchedSpec {
                    policy: "random".into(),
                    seed: 0,
                    param: 0,
                    horizon: 0,
                    trace: vec![],
                },
                max_steps: step_budget(self.entropy.len(), w),
                generous_bound: generous_steps(w),
                generous_requests: generous_requests(w),
                lib_tasks: 0,
                lib_len: 0,
                lib_calls: 0,
            });
            c.e3 = true;
        }
        c
    }

    pub fn workers(&self) -> usize {
        parse_usize_arg(&self.threads, 0).unwrap_or(0)
    }

    /// Judge one outcome of this case against the reference model.
    pub fn judge(&self, o: &Outcome, rep: &mut RunReport, engine: &str) {
        let argv = self.argv().join(" ");
        let pclass = classify_prefix(&self.prefix);
        let selector = classify_selector(&self.account_index, &self.hd_path);
        let length = parse_usize_arg(&self.length, 12);
        let threads = parse_usize_arg(&self.threads, 1);
        let lang_ok = self
            .language
            .as_deref()
            .map(|l| l.to_lowercase() == "english")
            .unwrap_or(true);
        let password = self.password.clone().unwrap_or_default();
        let vanity = pclass != PrefixClass::None;

        // ---- C17: never a panic, an abort or a hang --------------------------------
        let mut crashed = false;
        if let Some(h) = &o.e2 {
            for p in &h.panics {
                crashed = true;
                rep.violate(
                    "C17",
                    "panic",
                    panic_fingerprint(&p.loc, &p.msg),
                    format!(
                        "[{engine}] `{argv}`: task {} panicked at {}: {}",
                        p.task, p.loc, p.msg
                    ),
                );
            }
            match h.end.as_str() {
                "deadlock" => {
                    crashed = true;
                    rep.violate(
                        "C17",
                        "hang",
                        "new|deadlock",
                        format!("[{engine}] `{argv}`: the command never returns: {} ({} worker(s) died)", h.detail, h.died),
                    );
                }
                "liveness" => {
                    crashed = true;
                    rep.violate(
                        "C17",
                        "hang",
                        "new|no-progress",
                        format!(
                            "[{engine}] `{argv}`: no exit within {} scheduling steps / {} further entropy requests after every entropy response became a match ({})",
                            self.e2.as_ref().map(|e| e.generous_bound).unwrap_or(generous_steps(self.workers().min(64))),
                            self.e2.as_ref().map(|e| e.generous_requests).unwrap_or(generous_requests(self.workers().min(64))),
                            h.detail
                        ),
                    );
                }
                "budget" => {
                    crashed = true;
                    rep.violate(
                        "C17",
                        "hang",
                        "new|step-budget",
                        format!("[{engine}] `{argv}`: more than {} scheduling steps for {} planned entropy responses", h.steps, self.entropy.len()),
                    );
                }
                _ => {}
            }
        }
        match &o.status {
            Status::Exit(101) if o.e2.as_ref().map(|h| h.panics.is_empty()).unwrap_or(true) => {
                crashed = true;
                let (loc, msg) = o.panic_site().unwrap_or_default();
                rep.violate(
                    "C17",
                    "panic",
                    panic_fingerprint(&loc, &msg),
                    format!("[{engine}] `{argv}`: panicked at {loc}: {msg}"),
                );
            }
            Status::Signal(s) => {
                crashed = true;
                rep.violate(
                    "C17",
                    "abort",
                    format!("new|signal {s}"),
                    format!(
                        "[{engine}] `{argv}`: killed by signal {s}: {}",
                        first_line(&o.stderr)
                    ),
                );
            }
            Status::Timeout => {
                crashed = true;
                rep.violate(
                    "C17",
                    "hang",
                    "new|timeout",
                    format!("[{engine}] `{argv}`: still running after the wall-clock limit"),
                );
            }
            Status::Exit(c)
                if false && ![0, 2, 255, 101].contains(c)
                    && o.e2.as_ref().map(|h| h.end == "exit").unwrap_or(true) =>
            {
                crashed = true;
                rep.violate(
                    "C17",
                    "abort",
                    format!("new|exit {c}"),
                    format!("[{engine}] `{argv}`: unexpected exit status {c}"),
                );
            }
            _ => {}
        }
        // A property that needs a result cannot also hold when the process died:
        // C18 (b) and C12 rule 1 below are evaluated on crashed runs as well.

        let ok_events: Vec<&EntEvent> = o.ent.iter().filter(|e| e.ok).collect();
        let fail_events: Vec<&EntEvent> = o.ent.iter().filter(|e| !e.ok).collect();
        // EINTR is not "the source reports failure": getentropy(3) never surfaces it (glibc retries
        // inside) and a caller of getrandom(2) is expected to retry. An interrupted request may be
        // retried or may fail the command — both are fine; what is printed is still held to the
        // provenance clause, so a retry loop that gives up and uses an unfilled buffer is caught.
        let hard_fails: Vec<&EntEvent> = fail_events.iter().copied().filter(|e| e.errno != 4).collect();
        let stdout = o.stdout_str();
        let printed_anything = !o.stdout.is_empty();

        // ---- argument-level expectations ------------------------------------------
        let usage_error = length.is_none()
            || threads.is_none()
            || !lang_ok
            || selector == Selector::Conflict
            || pclass == PrefixClass::NonHex;
        if pclass == PrefixClass::NonHex {
            // "refused" = an ordinary error and nothing printed. Printing a phrase is acceptance,
            // and so is starting a search (the run then ends in the liveness/step bound or the
            // watchdog, because nothing was planted for whatever is being searched for).
            let searching = o.status == Status::Timeout
                || o.e2
                    .as_ref()
                    .map(|h| matches!(h.end.as_str(), "liveness" | "budget" | "deadlock"))
                    .unwrap_or(false);
            if o.status.ok() || printed_anything || searching {
                rep.violate(
                    "C18",
                    "nonhex-prefix-accepted",
                    "new|nonhex",
                    format!(
                        "[{engine}] `{argv}`: prefix is not hexadecimal, yet status {:?}, stdout {:?}{}",
                        o.status,
                        trunc(&stdout),
                        if searching { " — a search was started instead of refusing the prefix" } else { "" }
                    ),
                );
            }
        }
        if usage_error {
            if (o.status.ok() || printed_anything) && !crashed && pclass != PrefixClass::NonHex {
                // unparsable numbers, unknown language, both selectors: not properties of C12/C18,
                // but a phrase printed here would not be "generation of a supported length"
                if printed_anything {
                    rep.violate(
                        "C12",
                        "printed-on-usage-error",
                        "new|usage",
                        format!(
                            "[{engine}] `{argv}`: invalid usage, yet printed {:?}",
                            trunc(&stdout)
                        ),
                    );
                }
            }
            return;
        }
        let length = length.unwrap();
        let threads = threads.unwrap();
        let ent_len = rm::entropy_len(length);

        // ---- C12 rule 2: unsupported lengths are refused ----------------------------
        let Some(ent_len) = ent_len else {
            if o.status.ok() || printed_anything {
                rep.violate(
                    "C12",
                    "unsupported-length-accepted",
                    format!("new|len{}", if (12..=24).contains(&length) { "12..24" } else { "other" }),
                    format!("[{engine}] `{argv}`: length {length} is not one of 12/15/18/21/24, yet status {:?} and stdout {:?}", o.status, trunc(&stdout)),
                );
            }
            return;
        };

        // request sizes: a request that asks for fewer bytes than one phrase carries cannot fill
        // its entropy from the source (asking for more — reading ahead into a pool — is the
        // implementation's business; the device is a byte stream and serves it)
        for e in &o.ent {
            if (e.len as usize) < ent_len {
                rep.violate(
                    "C12",
                    "request-size",
                    "new|reqlen",
                    format!("[{engine}] `{argv}`: entropy request #{} asked for {} bytes, a {length}-word phrase carries {ent_len}", e.seq, e.len),
                );
                break;
            }
        }

        // ---- what was printed ------------------------------------------------------
        let printed: Option<(String, Vec<u8>)> = if o.status.ok() {
            let line_ok = stdout.ends_with('\n') && stdout.matches('\n').count() == 1;
            let phrase = stdout.trim_end_matches('\n').to_string();
            match rm::bip39_decode(&phrase) {
                Ok(e) if line_ok && phrase.split(' ').count() == length && e.len() == ent_len => {
                    Some((phrase, e))
                }
                other => {
                    let detail = format!("[{engine}] `{argv}`: exit 0 but stdout {:?} is not exactly one valid {length}-word BIP-39 phrase line ({:?})", trunc(&stdout), other.err());
                    rep.violate(
                        "C12",
                        "output-not-a-valid-phrase",
                        "new|phrase",
                        detail.clone(),
                    );
                    if matches!(pclass, PrefixClass::Hex(_)) {
                        // C18: "the phrase printed ... is a valid mnemonic of that length"
                        rep.violate("C18", "output-not-a-valid-phrase", "new|phrase", detail);
                    }
                    None
                }
            }
        } else {
            if printed_anything && !crashed {
                rep.violate(
                    "C12",
                    "output-on-failure",
                    "new|stdout",
                    format!(
                        "[{engine}] `{argv}`: status {:?} yet stdout {:?}",
                        o.status,
                        trunc(&stdout)
                    ),
                );
            }
            None
        };

        // ---- C12 rule 1/5: the phrase carries exactly bytes the source delivered -----
        if let Some((phrase, e)) = &printed {
            let hexe = hex::encode(e);
            let delivered = ok_events.iter().any(|ev| carries(&ev.bytes, &hexe));
            if !delivered {
                rep.violate(
                    "C12",
                    "entropy-not-from-source",
                    "new|foreign-entropy",
                    format!(
                        "[{engine}] `{argv}`: printed phrase {:?} encodes {hexe}, which is none of the {} values the entropy source delivered ({})",
                        trunc(phrase),
                        ok_events.len(),
                        ok_events.iter().take(4).map(|e| e.bytes.clone()).collect::<Vec<_>>().join(",")
                    ),
                );
            }
        }

        // selected account, when the statement pins it down
        let path: Option<Vec<PathComp>> = match &selector {
            Selector::Path(p) => Some(p.clone()),
            _ => None,
        };
        let matches = |bytes_hex: &str, digits: &str| -> Option<bool> {
            let e = hex::decode(bytes_hex).ok()?;
            let p = path.as_ref()?;
            let a = rm::address_of_entropy(&e, &password, p)?;
            Some(rm::has_prefix(&a, digits))
        };

        // ---- C18 (a): the printed phrase's account has the prefix ---------------------
        if let (Some((phrase, e)), PrefixClass::Hex(digits)) = (&printed, &pclass) {
            if let Some(p) = &path {
                match rm::account(phrase, &password, p) {
                    Some(acc) if rm::has_prefix(&acc.address, digits) => {}
                    Some(acc) => rep.violate(
                        "C18",
                        "wrong-prefix",
                        "new|prefix",
                        format!(
                            "[{engine}] `{argv}`: printed phrase (entropy {}) has address 0x{} at {}, which does not start with 0x{digits}",
                            hex::encode(e),
                            hex::encode(acc.address),
                            rm::path_to_string(p)
                        ),
                    ),
                    None => {}
                }
            }
        }

        // ---- expected outcome ----------------------------------------------------------
        let args_pinned =
            path.is_some() && matches!(pclass, PrefixClass::None | PrefixClass::Hex(_));
        if !args_pinned {
            // open spelling or open selector: either refusal or a (checked above) result
            if !vanity && selector == Selector::Malformed {
                // selector options are ignored without a prefix? no: nothing pinned, C17 only
            }
            return;
        }

        let single_searcher = !vanity || threads <= 1;
        if single_searcher {
            // deterministic: the first decisive delivery decides
            let mut expected: Option<Result<String, i32>> = None;
            let mut interrupted = false;
            for ev in &o.ent {
                if !ev.ok && ev.errno == 4 {
                    interrupted = true;
                    continue;
                }
                if !ev.ok {
                    expected = Some(Err(ev.errno));
                    break;
                }
                // a delivery shorter than one seed is judged by the request-size clause; a longer
                // one (read-ahead) is looked at seed by seed
                let hit = ev.bytes.as_bytes().chunks_exact(2 * ent_len).map(|c| std::str::from_utf8(c).unwrap()).find(|chunk| match &pclass {
                    PrefixClass::Hex(d) => matches(chunk, d).unwrap_or(false),
                    _ => true,
                });
                if let Some(chunk) = hit {
                    expected = Some(Ok(chunk.to_string()));
                    break;
                }
            }
            // after an interrupted request both continuing and failing are legitimate
            let expected = if interrupted && !matches!(expected, Some(Err(_))) { None } else { expected };
            let skip_none_clauses = interrupted;
            match expected {
                Some(Ok(want)) => {
                    // A qualifying value was delivered before any failure: the command must
                    // produce a phrase. Which phrase is judged by the provenance, validity and
                    // prefix clauses above (any delivered qualifying value satisfies the
                    // statements; the first one is what the present code returns). If the source
                    // failed anywhere in the run — an implementation that draws candidates ahead of
                    // checking them meets a failure that lies behind the match — failing is what C12
                    // asks for, so only failure-free runs are held to "must produce a phrase".
                    if printed.is_none() && fail_events.is_empty() {
                        let (prop, clause) = if vanity {
                            ("C18", "refused-valid-search")
                        } else {
                            ("C12", "no-phrase-for-supported-length")
                        };
                        rep.violate(
                            prop,
                            clause,
                            if crashed { "new|crash" } else { "new|single" },
                            format!(
                                "[{engine}] `{argv}`: the entropy source delivered the qualifying value {want} with no failure before it, yet status {:?}, stdout {:?}: {}",
                                o.status,
                                trunc(&stdout),
                                first_line(&o.stderr)
                            ),
                        );
                    }
                }
                Some(Err(errno)) => {
                    if (o.status.ok() || printed_anything) && !crashed {
                        rep.violate(
                            "C12",
                            "entropy-failure-ignored",
                            "new|failure",
                            format!(
                                "[{engine}] `{argv}`: the entropy source failed (errno {errno}) before any qualifying value, yet status {:?} and stdout {:?}",
                                o.status,
                                trunc(&stdout)
                            ),
                        );
                    }
                }
                None if skip_none_clauses => {
                    // an interrupted request: continuing and failing are both fine; a printed
                    // phrase is judged by the provenance, validity and prefix clauses above
                }
                None => {
                    if o.status.ok() && !crashed {
                        rep.violate(
                            "C12",
                            "phrase-without-entropy",
                            "new|noentropy",
                            format!("[{engine}] `{argv}`: exit 0 although no qualifying entropy was ever delivered ({} requests)", o.ent.len()),
                        );
                    } else if !o.status.ok() && !crashed && fail_events.is_empty() {
                        rep.violate(
                            "C12",
                            "spurious-error",
                            "new|spurious",
                            format!(
                                "[{engine}] `{argv}`: status {:?} without any entropy failure: {}",
                                o.status,
                                first_line(&o.stderr)
                            ),
                        );
                    } else if crashed && fail_events.is_empty() && printed.is_none() {
                        // valid arguments, no injected failure, and the process died before a result
                        let (prop, clause) = if vanity {
                            ("C18", "refused-valid-search")
                        } else {
                            ("C12", "no-phrase-for-supported-length")
                        };
                        rep.violate(prop, clause, "new|crash", format!("[{engine}] `{argv}`: valid request produced no phrase (status {:?})", o.status));
                    }
                }
            }
        } else {
            // several searchers: which worker's message arrives first is the scheduler's choice
            if o.status.ok() {
                // validity, provenance and prefix were checked above. What remains: a failure of
                // the source may lose the race against a result, but it may not be dropped. If the
                // task the failure was delivered to had run to completion (so whatever it does to
                // report the failure was done) before the winning value was even delivered to
                // anyone, the command knew of the failure before any result existed and must fail.
                // ... nor may the searcher it was reported to simply carry on drawing
                for f in &hard_fails {
                    if let Some(later) = o.ent.iter().find(|ev| ev.task == f.task && ev.seq > f.seq)
                    {
                        rep.violate(
                            "C12",
                            "entropy-failure-retried",
                            "new|retried",
                            format!(
                                "[{engine}] `{argv}`: entropy request #{} of task {} failed (errno {}), yet the same task went on to request #{} and the command exits 0 with a phrase",
                                f.seq, f.task, f.errno, later.seq
                            ),
                        );
                        break;
                    }
                }
                if let (Some(h), Some((_, e))) = (&o.e2, &printed) {
                    let hexe = hex::encode(e);
                    let first_delivery = h
                        .entropy
                        .iter()
                        .filter(|ev| ev.ok && carries(&ev.bytes, &hexe))
                        .map(|ev| ev.step)
                        .min();
                    for f in &hard_fails {
                        let finished_at = h
                            .finished_before_exit
                            .iter()
                            .zip(h.finished_steps.iter())
                            .find(|(t, _)| **t == f.task)
                            .map(|(_, s)| *s);
                        if let (Some(fin), Some(win)) = (finished_at, first_delivery) {
                            if fin < win {
                                rep.violate(
                                    "C12",
                                    "entropy-failure-dropped",
                                    "new|dropped",
                                    format!(
                                        "[{engine}] `{argv}`: entropy request #{} of task {} failed (errno {}) and that task had finished by step {fin}; the value that was printed ({hexe}) was first delivered at step {win}, yet the command exits 0 with a phrase",
                                        f.seq, f.task, f.errno
                                    ),
                                );
                                break;
                            }
                        }
                    }
                }
            } else if !crashed {
                if printed_anything {
                    // reported above as output-on-failure
                }
                if fail_events.is_empty() {
                    rep.violate(
                        "C18",
                        "refused-valid-search",
                        "new|multi",
                        format!("[{engine}] `{argv}`: valid vanity search with {threads} threads and no entropy failure ended with {:?}: {}", o.status, first_line(&o.stderr)),
                    );
                }
            } else if fail_events.is_empty() && printed.is_none() {
                rep.violate(
                    "C18",
                    "refused-valid-search",
                    "new|crash",
                    format!(
                        "[{engine}] `{argv}`: valid vanity search produced no phrase (status {:?})",
                        o.status
                    ),
                );
            }
        }
    }

    fn account_faults(&self, o: &Outcome, rep: &mut RunReport) {
        let cfg_fail = self
            .entropy
            .iter()
            .filter(|r| matches!(r, EntResp::Fail { .. }))
            .count() as u64;
        let cfg_scribble = self
            .entropy
            .iter()
            .filter(|r| matches!(r, EntResp::Fail { partial, .. } if !partial.is_empty()))
            .count() as u64;
        let fired_fail = o.ent.iter().filter(|e| !e.ok && e.src == "plan").count() as u64;
        rep.fault("entropy_failure", cfg_fail, fired_fail);
        rep.fault(
            "entropy_failure_with_partial_scribble",
            cfg_scribble,
            if cfg_scribble > 0 {
                fired_fail.min(cfg_scribble)
            } else {
                0
            },
        );
        let is_pattern = |h: &str| {
            let b = hex::decode(h).unwrap_or_default();
            !b.is_empty()
                && (b.iter().all(|x| *x == b[0])
                    || b.windows(2).all(|w| w[1] == w[0].wrapping_add(1)))
        };
        let cfg_pat = self
            .entropy
            .iter()
            .filter(|r| matches!(r, EntResp::Ok(h) if is_pattern(h)))
            .count() as u64;
        let fired_pat = o
            .ent
            .iter()
            .filter(|e| e.ok && is_pattern(&e.bytes))
            .count() as u64;
        rep.fault("entropy_degenerate_pattern", cfg_pat, fired_pat);
        let (c, e, _) = iogen::configured(&self.wplan);
        let fw = iogen::fired(&o.io, 'W');
        rep.fault("stdout_short_write", c, fw.short);
        rep.fault("stdout_eintr", e, fw.eintr);
        rep.syscalls += o.ent.len() as u64 + fw.calls;
        rep.procs += 1;
        if fired_fail + fired_pat + fw.short + fw.eintr > 0 {
            rep.nontrivial = true;
        }
        if let Some(h) = &o.e2 {
            rep.sched_steps += h.steps as u64;
            rep.fault(
                "schedule_preemption",
                if h.tasks > 1 { 1 } else { 0 },
                h.preemptions as u64,
            );
            let tasks_ran: std::collections::BTreeSet<u32> = h.choices.iter().copied().collect();
            if tasks_ran.len() > 1 {
                rep.nontrivial = true;
            }
            let winner_task = if o.status.ok() {
                let phrase = o.stdout_str();
                rm::bip39_decode(phrase.trim()).ok().and_then(|e| {
                    let hx = hex::encode(e);
                    h.entropy
                        .iter()
                        .rev()
                        .find(|ev| ev.ok && carries(&ev.bytes, &hx))
                        .map(|ev| ev.task)
                })
            } else {
                None
            };
            rep.probe(
                "winner_is_not_first_worker",
                matches!(winner_task, Some(t) if t > 1),
            );
            rep.probe(
                "winner_value_drawn_by_main",
                winner_task == Some(0) && h.tasks > 1,
            );
            rep.probe(
                "two_or_more_workers_finished_before_exit",
                h.finished_before_exit.len() >= 2,
            );
            rep.probe(
                "worker_still_searching_at_exit",
                h.end == "exit" && h.unfinished_at_end > 0,
            );
            rep.probe(
                "entropy_failure_but_another_worker_won",
                fired_fail > 0 && o.status.ok(),
            );
            let failing_finished_early = o.status.ok()
                || h.entropy
                    .iter()
                    .filter(|e| !e.ok)
                    .any(|f| h.finished_before_exit.contains(&f.task));
            rep.probe(
                "failing_worker_finished_before_exit",
                fired_fail > 0 && failing_finished_early && h.tasks > 2,
            );
            rep.probe(
                "entropy_failure_made_the_command_fail",
                fired_fail > 0 && !o.status.ok(),
            );
            rep.probe("device_turned_generous", h.generous_at_step.is_some());
            rep.probe("worker_died_by_panic", h.died > 0);
            rep.probe("deadlock_detected", h.end == "deadlock");
            if let Some(g) = h.generous_at_step {
                let after = h.steps.saturating_sub(g);
                let e = rep
                    .probes
                    .entry("max_steps_after_generous".into())
                    .or_insert(0);
                *e = (*e).max(after as u64);
            }
        }
    }

    pub fn run(&self, ctx: &Ctx, dir: &Path) -> Result<RunReport, HarnessError> {
        let mut rep = RunReport::default();
        for p in [
            "winner_is_not_first_worker",
            "winner_value_drawn_by_main",
            "two_or_more_workers_finished_before_exit",
            "worker_still_searching_at_exit",
            "entropy_failure_but_another_worker_won",
            "failing_worker_finished_before_exit",
            "entropy_failure_made_the_command_fail",
            "device_turned_generous",
            "worker_died_by_panic",
            "deadlock_detected",
            "reparse_by_real_binary",
            "threaded_run_on_real_binary_e3",
        ] {
            rep.probe(p, false);
        }
        rep.fault_free = !self
            .entropy
            .iter()
            .any(|r| matches!(r, EntResp::Fail { .. }));
        rep.probe(
            "threaded_run_on_real_binary_e3",
            self.e3 && self.e2.is_some(),
        );
        let engine = if self.e2.is_some() && self.e3 {
            "E3"
        } else if self.e2.is_some() {
            "E2"
        } else {
            "E1"
        };
        use std::sync::atomic::Ordering::Relaxed;
        let unusable = crate::exec::E2_UNUSABLE.load(Relaxed);
        if engine == "E2" && (unusable >= 1000 || (self.workers() >= 1 && unusable >= 3)) {
            // established earlier in this batch (three times): E2 cannot run this tree's threads
            return self.real_binary_verdict(ctx, dir, "e2_unusable_for_this_tree_real_binary_used");
        }
        let cmd = self.cmd(false);
        let o = match exec(ctx, dir, &cmd) {
            Ok(o) => o,
            Err(e) if e.0.starts_with("SEAM-ESCAPE") && !self.e3 => {
                crate::exec::E2_UNUSABLE.fetch_add(1, Relaxed);
                // The threads of this tree are not created where the seam is (code moved to another
                // module, say): the shuttle executor cannot schedule them. Engine E3 schedules the real
                // binary's real threads and needs no seam at all.
                let mut c = self.clone();
                c.e3 = true;
                let mut rep = c.run(ctx, dir)?;
                rep.probe("seam_escape_fallback_to_e3", true);
                return Ok(rep);
            }
            Err(e) => return Err(e),
        };
        let mut eh = Fnv::new();
        eh.write_u64(o.event_hash());
        if self.e2.is_some() && !self.e3 && o.status == Status::Timeout {
            // The shuttle executor itself stopped making progress. Either the command loops without
            // ever reaching a scheduling point (a real hang), or it blocks on a real std primitive the
            // simulator does not control while the holder is suspended (an artefact of E2: code outside
            // the seam, e.g. the library, took a std lock across the entropy call). The real binary
            // under the shim's scheduler (E3) models those locks: its verdict is the one that counts.
            let r = self.real_binary_verdict(ctx, dir, "e2_stalled_real_binary_verdict_used")?;
            if !r.violations.iter().any(|v| v.clause == "hang") {
                // the real binary does not hang: the stall was E2's
                crate::exec::E2_UNUSABLE.fetch_add(1, Relaxed);
            }
            return Ok(r);
        }
        self.account_faults(&o, &mut rep);
        self.judge(&o, &mut rep, engine);
        // A deadlock verdict of shuttle — no task can run while the main task is blocked — is a fact
        // about the modelled primitives and is trusted as it stands (an atomics-level interleaving that
        // E3 has no scheduling point for can be the only way into it: `seeded/r3b-1`), unless the run
        // used a timed Condvar wait, which shuttle never lets time out. Panics, aborts and
        // no-progress/step-budget hangs need confirmation (see below).
        let needs_confirmation = |v: &crate::framework::Violation| {
            v.property == "C17"
                && !(v.clause == "hang" && v.fingerprint == "new|deadlock" && !o.e2.as_ref().map(|h| h.timed_wait_used).unwrap_or(false))
        };
        if engine == "E2" && rep.violations.iter().any(needs_confirmation) {
            // E2 is a model, and a panic or a hang seen in it can be an artefact of the model:
            //  * all shuttle tasks share one OS thread, hence one set of real thread-locals — state
            //    kept per thread outside the seam (a thread_local! RefCell in the library, say) is
            //    shared between tasks and can panic ("already borrowed") although real threads cannot;
            //  * shuttle's RwLock lets readers in while a writer waits, std's futex RwLock does not:
            //    two polling readers can starve a writer for ever in E2, never in the real program.
            // A C17 violation seen in E2 is therefore confirmed on the real binary under the shim's
            // scheduler (E3: real std locks, real thread-locals; deterministic for a single searcher,
            // six seeded schedules otherwise) before it is believed. If none of those runs shows a
            // violation of the same clause, the real binary's verdict replaces E2's for this case.
            let mut want: Vec<&str> = rep
                .violations
                .iter()
                .filter(|v| needs_confirmation(v))
                .map(|v| if v.clause == "hang" { "hang" } else { "crash" })
                .collect();
            want.dedup();
            let mut confirmed = false;
            let mut first: Option<RunReport> = None;
            // a program that hangs for real hangs on the first try; a panic may need its interleaving
            let tries = if self.workers() <= 1 {
                1
            } else if want == ["hang"] {
                2
            } else {
                6
            };
            let mut ran = 0;
            for k in 0..tries {
                let mut c = self.clone();
                c.e3 = true;
                c.cross_e1 = false;
                if let Some(e2) = c.e2.as_mut() {
                    if e2.sched.policy == "trace" || k > 0 {
                        let policy = if k % 2 == 0 { "random" } else { "sticky" };
                        e2.sched = SchedSpec {
                            policy: policy.into(),
                            seed: 0xc0f1_0000 + k,
                            param: 200,
                            horizon: 64,
                            trace: vec![],
                        };
                    }
                }
                let r = c.run(ctx, dir)?;
                ran += 1;
                let hit = r.violations.iter().any(|v| {
                    v.property == "C17"
                        && want.contains(&if v.clause == "hang" { "hang" } else { "crash" })
                });
                if first.is_none() {
                    first = Some(r);
                }
                if hit {
                    confirmed = true;
                    break;
                }
            }
            rep.procs += ran;
            if !confirmed {
                let mut r = first.expect("at least one E3 run");
                r.probe(
                    "e2_c17_violation_not_seen_on_real_binary_verdict_replaced",
                    true,
                );
                r.procs += ran;
                return Ok(r);
            }
            rep.probe("e2_c17_violation_confirmed_on_real_binary", true);
        }

        // shape: argument classes + fault positions + the schedule actually taken
        let mut sh = Fnv::new();
        sh.write(self.length.clone().unwrap_or_default().as_bytes());
        sh.write(
            self.prefix
                .as_ref()
                .map(|p| p.len().to_string())
                .unwrap_or_default()
                .as_bytes(),
        );
        sh.write(self.threads.clone().unwrap_or_default().as_bytes());
        sh.write(
            format!(
                "{:?}",
                classify_selector(&self.account_index, &self.hd_path)
            )
            .as_bytes(),
        );
        for (i, r) in self.entropy.iter().enumerate() {
            if matches!(r, EntResp::Fail { .. }) {
                sh.write_u64(i as u64);
            }
        }
        sh.write_u64(self.entropy.len() as u64);
        sh.write(format!("{:?}", self.wplan).as_bytes());
        if let Some(h) = &o.e2 {
            sh.write(h.sched_hash.as_bytes());
        } else {
            // E1: the entropy bytes are the only other simulator decision
            for r in &self.entropy {
                sh.write(format!("{r:?}").as_bytes());
            }
        }
        rep.shape = sh.finish();

        let mut hist = vec![json!({
            "engine": engine,
            "argv": cmd.argv,
            "entropy_plan": self.entropy.iter().map(|r| format!("{r:?}")).collect::<Vec<_>>(),
            "tail": format!("{:?}", self.tail),
            "sched": self.e2.as_ref().map(|e| json!({"policy": e.sched.policy, "seed": e.sched.seed, "param": e.sched.param})),
            "status": format!("{:?}", o.status),
            "stdout": o.stdout_str(),
            "entropy_log": o.ent.iter().map(|e| format!("#{} task{} len{} {} {}", e.seq, e.task, e.len, if e.ok { e.bytes.clone() } else { format!("FAIL errno {}", e.errno) }, e.src)).collect::<Vec<_>>(),
            "schedule_choices": o.e2.as_ref().map(|h| h.choices.clone()),
            "steps": o.e2.as_ref().map(|h| h.steps),
            "end": o.e2.as_ref().map(|h| h.end.clone()),
        })];

        // ---- C12: every generated phrase can be parsed back by the tool itself ----------
        if self.reparse && o.status.ok() {
            let phrase = o.stdout_str().trim_end_matches('\n').to_string();
            if !phrase.is_empty() && !phrase.contains('\n') {
                let c2 = Cmd {
                    argv: vec!["address".into(), "--mnemonic".into(), phrase.clone()],
                    ..Cmd::default()
                };
                let o2 = exec(ctx, dir, &c2)?;
                eh.write_u64(o2.event_hash());
                rep.procs += 1;
                rep.probe("reparse_by_real_binary", true);
                hist.push(json!({"engine": "E1", "argv": ["address", "--mnemonic", "<printed phrase>"], "status": format!("{:?}", o2.status), "stdout": o2.stdout_str()}));
                if !o2.status.ok() {
                    let crashed = matches!(
                        o2.status,
                        Status::Exit(101) | Status::Signal(_) | Status::Timeout
                    );
                    rep.violate(
                        "C12",
                        "phrase-not-parsed-back",
                        "new|reparse",
                        format!(
                            "`{}` printed {:?}, which `address --mnemonic` rejects: {:?} {}",
                            cmd.argv.join(" "),
                            trunc(&phrase),
                            o2.status,
                            first_line(&o2.stderr)
                        ),
                    );
                    if crashed {
                        let (loc, msg) = o2.panic_site().unwrap_or_default();
                        rep.violate(
                            "C17",
                            "panic",
                            panic_fingerprint(&loc, &msg),
                            format!(
                                "`address --mnemonic {:?}`: {:?} {msg} at {loc}",
                                trunc(&phrase),
                                o2.status
                            ),
                        );
                    }
                }
            }
        }

        // ---- C12: which delivered bytes are used must not depend on their values --------
        if let (Some(tw), true, true) = (&self.twin_first, self.prefix.is_none() && !self.entropy.is_empty(), rep.fault_free) {
            let mut c = self.clone();
            c.twin_first = None;
            c.entropy[0] = tw.clone();
            let cmd2 = c.cmd(false);
            let o2 = exec(ctx, dir, &cmd2)?;
            eh.write_u64(o2.event_hash());
            rep.procs += 1;
            // offset of the printed entropy in the stream of all successfully delivered bytes
            let position = |o: &Outcome| -> Option<usize> {
                if !o.status.ok() {
                    return None;
                }
                let e = rm::bip39_decode(o.stdout_str().trim_end_matches('\n')).ok()?;
                let stream: String = o.ent.iter().filter(|ev| ev.ok).map(|ev| ev.bytes.as_str()).collect();
                let he = hex::encode(e);
                let mut from = 0;
                while let Some(i) = stream[from..].find(&he) {
                    if (from + i) % 2 == 0 {
                        return Some((from + i) / 2);
                    }
                    from += i + 1;
                }
                None
            };
            let (p1, p2) = (position(&o), position(&o2));
            rep.probe("twin_generation_compared", true);
            hist.push(json!({"engine": engine, "twin_first": format!("{tw:?}"), "status": format!("{:?}", o2.status), "stdout": o2.stdout_str(),
                "printed_entropy_stream_offset": [p1, p2]}));
            let crashed2 = matches!(o2.status, Status::Exit(101) | Status::Signal(_) | Status::Timeout);
            if (o.status.ok() != o2.status.ok() || (o.status.ok() && p1.is_some() && p2.is_some() && p1 != p2)) && !crashed2 {
                rep.violate(
                    "C12",
                    "entropy-selection-depends-on-value",
                    "new|twin",
                    format!(
                        "[{engine}] `{}`: with first response {:?} -> status {:?}, printed entropy at stream offset {:?} ({} requests); with first response {:?} and everything else equal -> status {:?}, offset {:?} ({} requests): which delivered bytes end up in the phrase depends on their values",
                        cmd.argv.join(" "), self.entropy[0], o.status, p1, o.ent.len(), tw, o2.status, p2, o2.ent.len()
                    ),
                );
            }
        }

        // ---- E2 stubs main.rs: cross-validate single-searcher runs on the real binary -----
        let e2_exited = o.e2.as_ref().map(|h| h.end == "exit").unwrap_or(false);
        if self.cross_e1
            && self.e2.is_some()
            && e2_exited
            && (self.prefix.is_none() || self.workers() <= 1)
        {
            let c1 = self.cmd(true);
            let o1 = exec(ctx, dir, &c1)?;
            eh.write_u64(o1.event_hash());
            rep.procs += 1;
            let mut rep1 = RunReport::default();
            self.judge(&o1, &mut rep1, "E1");
            hist.push(json!({"engine": "E1 (cross-validation)", "status": format!("{:?}", o1.status), "stdout": o1.stdout_str()}));
            let same = o1.status == o.status && o1.stdout == o.stdout;
            let e2_ended = o.e2.as_ref().map(|h| h.end == "exit").unwrap_or(false);
            if !same && e2_ended {
                // E2 is a model (its main.rs is a stub, its tasks share one OS thread); where it and
                // the real binary differ on a run that no scheduler choice can influence, the real
                // binary is right by definition and its verdict replaces E2's.
                return self.real_binary_verdict(
                    ctx,
                    dir,
                    "e2_differs_from_real_binary_verdict_replaced",
                );
            }
            rep.violations.extend(rep1.violations);
            if same {
                rep.cross_validated += 1;
            }
        }

        // the same defect may surface in several clauses; keep one violation per class
        let mut uniq: Vec<crate::framework::Violation> = Vec::new();
        for v in rep.violations.drain(..) {
            if !uniq.iter().any(|u| u.same_class(&v)) {
                uniq.push(v);
            }
        }
        rep.violations = uniq;
        rep.event_hash = eh.finish();
        rep.history = json!(hist);
        rep.explicit_choices = o.e2.as_ref().map(|h| h.choices.clone());
        rep.schedule_id =
            o.e2.as_ref().filter(|h| !h.choices.is_empty()).map(|h| {
                crate::prng::fnv1a(format!("{}|{:?}", h.sched_hash, h.choices).as_bytes())
            });
        Ok(rep)
    }

    /// Run this scenario on the real binary under the shim's scheduler and report that.
    fn real_binary_verdict(
        &self,
        ctx: &Ctx,
        dir: &Path,
        probe: &str,
    ) -> Result<RunReport, HarnessError> {
        let mut c = self.clone();
        c.e3 = true;
        c.cross_e1 = false;
        if let Some(e2) = c.e2.as_mut() {
            if e2.sched.policy == "trace" {
                e2.sched = SchedSpec {
                    policy: "random".into(),
                    seed: 0xc0f1_0000,
                    param: 0,
                    horizon: 64,
                    trace: vec![],
                };
            }
        }
        let mut r = c.run(ctx, dir)?;
        r.probe(probe, true);
        r.procs += 1;
        Ok(r)
    }

    pub fn explicit(&self, rep: &RunReport) -> Option<NewCase> {
        let e2 = self.e2.as_ref()?;
        if e2.sched.policy == "trace" {
            return None;
        }
        let choices = rep.explicit_choices.clone()?;
        let mut c = self.clone();
        c.e2.as_mut().unwrap().sched = SchedSpec::trace(choices);
        Some(c)
    }

    pub fn reseeded(&self, k: u64) -> Option<NewCase> {
        let e2 = self.e2.as_ref()?;
        if self.workers() < 2 {
            return None;
        }
        let mut c = self.clone();
        let horizon = e2.sched.horizon.max(64);
        c.e2.as_mut().unwrap().sched = match k % 3 {
            0 => SchedSpec {
                policy: "random".into(),
                seed: 0x5eed_0000 + k,
                param: 0,
                horizon,
                trace: vec![],
            },
            1 => SchedSpec {
                policy: "sticky".into(),
                seed: 0x5eed_0000 + k,
                param: 192,
                horizon,
                trace: vec![],
            },
            _ => SchedSpec {
                policy: "pct".into(),
                seed: 0x5eed_0000 + k,
                param: 2,
                horizon,
                trace: vec![],
            },
        };
        Some(c)
    }

    /// The premise of the liveness oracle: the generous tail really is a match for what this
    /// scenario searches for. `None` when the reference cannot tell (open selector, no digits).
    pub fn tail_matches(&self) -> Option<bool> {
        let PrefixClass::Hex(d) = classify_prefix(&self.prefix) else {
            return None;
        };
        if d.is_empty() {
            return Some(true);
        }
        let Selector::Path(p) = classify_selector(&self.account_index, &self.hd_path) else {
            return None;
        };
        let Some(EntResp::Ok(h)) = &self.tail else {
            return None;
        };
        let e = hex::decode(h).ok()?;
        let len = parse_usize_arg(&self.length, 12)?;
        if rm::entropy_len(len) != Some(e.len()) {
            return Some(false);
        }
        let a = rm::address_of_entropy(&e, self.password.as_deref().unwrap_or(""), &p)?;
        Some(rm::has_prefix(&a, &d))
    }

    pub fn shrink_candidates(&self) -> Vec<NewCase> {
        let mut out: Vec<NewCase> = Vec::new();
        // A simpler scenario must keep the premise of the original: if the tail was a match for
        // the search, it must still be one after an argument is dropped, otherwise "the search
        // never ends" becomes true for a reason that has nothing to do with the tree.
        let premise = self.tail_matches();
        let mut push = |c: NewCase| {
            if c != *self
                && !out.contains(&c)
                && (premise != Some(true) || c.tail_matches() == Some(true))
            {
                out.push(c);
            }
        };
        // drop optional arguments
        for k in 0..5 {
            let mut c = self.clone();
            match k {
                0 => c.language = None,
                1 => c.password = None,
                2 => c.account_index = None,
                3 => c.hd_path = None,
                _ => {
                    c.wplan.clear();
                }
            }
            push(c);
        }
        if self.length.as_deref() == Some("12") {
            let mut c = self.clone();
            c.length = None;
            push(c);
        }
        // fewer workers
        if let Some(t) = self.threads.as_ref().and_then(|t| t.parse::<usize>().ok()) {
            for n in [0usize, 1, 2, t / 2, t.saturating_sub(1)] {
                if n < t {
                    let mut c = self.clone();
                    c.threads = Some(n.to_string());
                    push(c);
                }
            }
        }
        // shorter entropy plan: drop single responses (moves plant / failure earlier)
        for i in 0..self.entropy.len().min(24) {
            let mut c = self.clone();
            c.entropy.remove(i);
            push(c);
        }
        if self.entropy.len() > 1 {
            let mut c = self.clone();
            c.entropy.truncate(self.entropy.len() / 2);
            push(c);
        }
        // failures without scribble, EIO instead of other errnos
        for i in 0..self.entropy.len() {
            if let EntResp::Fail { errno, partial } = &self.entropy[i] {
                if !partial.is_empty() || *errno != 5 {
                    let mut c = self.clone();
                    c.entropy[i] = EntResp::Fail {
                        errno: 5,
                        partial: String::new(),
                    };
                    push(c);
                }
            }
        }
        // shorter prefix
        if let Some(p) = &self.prefix {
            if let Some(d) = p.strip_prefix("0x") {
                if d.len() > 1 {
                    let mut c = self.clone();
                    c.prefix = Some(format!("0x{}", &d[..d.len() - 1]));
                    push(c);
                    let mut c = self.clone();
                    c.prefix = Some(format!("0x{}", &d[..1]));
                    push(c);
                }
                if d.bytes().any(|b| b.is_ascii_uppercase()) {
                    let mut c = self.clone();
                    c.prefix = Some(format!("0x{}", d.to_ascii_lowercase()));
                    push(c);
                }
            }
        }
        // schedule simplification on explicit traces
        if let Some(e2) = &self.e2 {
            if e2.sched.policy == "trace" {
                let t = &e2.sched.trace;
                // truncate: the scheduler then stays on the current task / lowest id
                for keep in [
                    0,
                    t.len() / 4,
                    t.len() / 2,
                    (3 * t.len()) / 4,
                    t.len().saturating_sub(1),
                ] {
                    if keep < t.len() {
                        let mut c = self.clone();
                        c.e2.as_mut().unwrap().sched.trace.truncate(keep);
                        push(c);
                    }
                }
                // remove context switches: replace a choice by the previous one
                let mut switches = 0;
                for i in 1..t.len() {
                    if t[i] != t[i - 1] {
                        switches += 1;
                        if switches > 24 {
                            break;
                        }
                        let mut c = self.clone();
                        c.e2.as_mut().unwrap().sched.trace[i] = t[i - 1];
                        push(c);
                    }
                }
            }
        }
        // single-searcher runs do not need E2 at all
        if self.e2.is_some() && (self.prefix.is_none() || self.workers() <= 1) {
            let mut c = self.clone();
            c.e2 = None;
            c.cross_e1 = false;
            push(c);
        }
        if self.cross_e1 {
            let mut c = self.clone();
            c.cross_e1 = false;
            push(c);
        }
        out
    }
}

/// Do the delivered bytes (hex) contain `seed` (hex) at a byte boundary?
pub fn carries(delivered_hex: &str, seed_hex: &str) -> bool {
    if seed_hex.is_empty() || delivered_hex.len() < seed_hex.len() {
        return false;
    }
    let mut from = 0;
    while let Some(i) = delivered_hex[from..].find(seed_hex) {
        if (from + i) % 2 == 0 {
            return true;
        }
        from += i + 1;
    }
    false
}

fn trunc(s: &str) -> String {
    if s.len() > 200 {
        format!(
            "{}…",
            &s[..s
                .char_indices()
                .take(200)
                .last()
                .map(|(i, _)| i)
                .unwrap_or(0)]
        )
    } else {
        s.to_string()
    }
}

fn first_line(s: &str) -> String {
    trunc(s.lines().find(|l| !l.trim().is_empty()).unwrap_or(""))
}

// ---------------------------------------------------------------------------
// Generation
// ---------------------------------------------------------------------------

pub const PATTERNS: usize = 8;

pub fn pattern(k: usize, len: usize) -> Vec<u8> {
    match k % PATTERNS {
        0 => vec![0x00; len],
        1 => vec![0xff; len],
        2 => vec![0x80; len],
        3 => vec![0x01; len],
        4 => (0..len).map(|i| i as u8).collect(),
        5 => (0..len).map(|i| (0xf0 + i) as u8).collect(),
        6 => vec![0x55; len],
        _ => vec![0xaa; len],
    }
}

pub fn gen_selector(rng: &mut Rng) -> (Option<String>, Option<String>, Vec<PathComp>) {
    match rng.weighted(&[5, 3, 3]) {
        0 => (None, None, rm::default_path(0)),
        1 => {
            let i = match rng.below(5) {
                0 => 0,
                1 => 1,
                2 => 2,
                3 => 0x7fff_ffff,
                _ => rng.below(0x8000_0000) as u32,
            };
            (Some(i.to_string()), None, rm::default_path(i))
        }
        _ => {
            let depth = rng.range(1, 6) as usize;
            let comps: Vec<PathComp> = (0..depth)
                .map(|_| {
                    let v = match rng.below(4) {
                        0 => rng.below(3) as u32,
                        1 => rng.below(100) as u32,
                        2 => 0x7fff_ffff,
                        _ => rng.below(0x8000_0000) as u32,
                    };
                    (v, rng.coin())
                })
                .collect();
            (None, Some(rm::path_to_string(&comps)), comps)
        }
    }
}

pub fn gen_password(rng: &mut Rng) -> Option<String> {
    match rng.weighted(&[5, 2, 1, 1]) {
        0 => None,
        1 => Some(["TREZOR", "hunter2", "correct horse", " "][rng.usize_below(4)].to_string()),
        2 => Some(
            ["пароль", "ｐａｓｓ", "e\u{301}", "ﬁ", "パスワード"][rng.usize_below(5)].to_string(),
        ),
        _ => Some(String::new()),
    }
}

/// Draw an entropy value and the prefix it yields: returns (entropy, digits of its address).
pub fn plant(
    rng: &mut Rng,
    ent_len: usize,
    password: &str,
    path: &[PathComp],
    first_digit: Option<u8>,
) -> (Vec<u8>, String) {
    loop {
        let e = rng.bytes(ent_len);
        if let Some(a) = rm::address_of_entropy(&e, password, path) {
            let hexa = hex::encode(a);
            if let Some(d) = first_digit {
                if hexa.as_bytes()[0] != d {
                    continue;
                }
            }
            return (e, hexa);
        }
    }
}

pub fn mix_case(rng: &mut Rng, digits: &str, mode: u64) -> String {
    digits
        .chars()
        .map(|c| match mode {
            0 => c.to_ascii_lowercase(),
            1 => c.to_ascii_uppercase(),
            _ => {
                if rng.coin() {
                    c.to_ascii_uppercase()
                } else {
                    c.to_ascii_lowercase()
                }
            }
        })
        .collect()
}

pub fn gen_sched(rng: &mut Rng, workers: usize, plan_len: usize) -> SchedSpec {
    let horizon = (8 * (workers + plan_len) + 16) as u32;
    match rng.weighted(&[4, 3, 3, 4]) {
        3 => SchedSpec {
            // random walk plus up to `param` long preemptions of a task that is about to
            // publish a result (channel send)
            policy: "stall".into(),
            seed: rng.next_u64(),
            param: rng.range(1, 3) as u32,
            horizon,
            trace: vec![],
        },
        0 => SchedSpec {
            policy: "random".into(),
            seed: rng.next_u64(),
            param: 0,
            horizon,
            trace: vec![],
        },
        1 => SchedSpec {
            policy: "sticky".into(),
            seed: rng.next_u64(),
            param: *rng.pick(&[128u32, 192, 230, 250]),
            horizon,
            trace: vec![],
        },
        _ => SchedSpec {
            policy: "pct".into(),
            seed: rng.next_u64(),
            param: rng.range(0, 4) as u32,
            horizon,
            trace: vec![],
        },
    }
}

/// Bounds, deliberately far above what the present code needs (2 steps per entropy request, 3 per
/// worker, at most one request per searcher once every response matches) so that implementations
/// which poll, pre-generate candidates in batches, or hand work out through shared queues stay
/// well inside them. They exist to turn "never returns" into a finite observation, not to
/// constrain how the search is organised.
pub fn step_budget(plan_len: usize, workers: usize) -> u32 {
    (4000 + 400 * (plan_len + workers)) as u32
}
pub fn generous_requests(workers: usize) -> u32 {
    (384 + 32 * workers) as u32
}
pub fn generous_steps(workers: usize) -> u32 {
    16 * generous_requests(workers)
}

pub fn e2_params(rng: &mut Rng, workers: usize, plan_len: usize) -> E2Params {
    E2Params {
        sched: gen_sched(rng, workers, plan_len),
        max_steps: step_budget(plan_len, workers),
        generous_bound: generous_steps(workers),
        generous_requests: generous_requests(workers),
        lib_tasks: 0,
        lib_len: 0,
        lib_calls: 0,
    }
}

pub struct VanitySpec {
    /// non-matching responses placed after the planted match (consumed only by searchers that
    /// are still running when it is found), before the generous tail starts
    pub after_plant: usize,
    /// 1..: that many consecutive failures (same errno) instead of one
    pub fail_burst: usize,
    pub length: usize,
    pub digits: usize,
    pub case_mode: u64,
    pub first_digit: Option<u8>,
    pub workers: usize,
    pub plant_at: usize,
    /// replace the response at this request index by a failure
    pub fail_at: Option<usize>,
    pub engine_e2: bool,
    pub default_account: bool,
}

/// A vanity-search scenario whose plan contains a planted match.
pub fn gen_vanity(rng: &mut Rng, spec: &VanitySpec) -> NewCase {
    let ent_len = rm::entropy_len(spec.length).unwrap();
    let (index, hd_path, path) = if spec.default_account {
        (None, None, rm::default_path(0))
    } else {
        gen_selector(rng)
    };
    let password = if spec.default_account {
        None
    } else {
        gen_password(rng)
    };
    let pw = password.clone().unwrap_or_default();
    let (estar, addr_hex) = plant(rng, ent_len, &pw, &path, spec.first_digit);
    let digits = mix_case(rng, &addr_hex[..spec.digits.min(40)], spec.case_mode);
    let mut entropy: Vec<EntResp> = Vec::new();
    for i in 0..spec.plant_at {
        // mostly random, sometimes a degenerate pattern
        if rng.chance(1, 8) {
            entropy.push(EntResp::ok(&pattern(
                rng.usize_below(PATTERNS) + i,
                ent_len,
            )));
        } else {
            entropy.push(EntResp::ok(&rng.bytes(ent_len)));
        }
    }
    entropy.push(EntResp::ok(&estar));
    for _ in 0..spec.after_plant {
        entropy.push(EntResp::ok(&rng.bytes(ent_len)));
    }
    if let Some(f) = spec.fail_at {
        if f < entropy.len() {
            // EIO, ENOSYS, EFAULT, and the "transient" ones a retry loop would be written for
            let errno = *rng.pick(&[5, 38, 14, 4, 11]);
            for k in 0..spec.fail_burst.max(1) {
                if f + k < entropy.len() {
                    let partial = if rng.coin() {
                        hex::encode(rng.bytes_between(1, ent_len))
                    } else {
                        String::new()
                    };
                    entropy[f + k] = EntResp::Fail { errno, partial };
                }
            }
        }
    }
    let mut c = NewCase {
        length: if spec.length == 12 && rng.coin() {
            None
        } else {
            Some(spec.length.to_string())
        },
        language: if rng.chance(1, 10) {
            Some(["english", "English", "ENGLISH"][rng.usize_below(3)].into())
        } else {
            None
        },
        prefix: Some(format!("0x{digits}")),
        password,
        account_index: index,
        hd_path,
        threads: Some(spec.workers.to_string()),
        entropy,
        tail: Some(EntResp::ok(&estar)),
        wplan: Vec::new(),
        e2: None,
        reparse: true,
        cross_e1: false,
        e3: false,
        twin_first: None,
    };
    if spec.engine_e2 {
        c.e2 = Some(e2_params(rng, spec.workers, c.entropy.len()));
        c.cross_e1 = spec.workers <= 1;
        // one threaded scenario in six runs on the real binary under the shim's scheduler (E3)
        let force = std::env::var("VERIF_FORCE_E3").is_ok(); // self-test knob: every threaded scenario on E3
        c.e3 = spec.workers >= 2 && spec.workers <= 16 && (rng.chance(1, 6) || force);
    } else {
        c.wplan = iogen::benign_plan(rng, 100);
    }
    c
}

/// `new -n L` without a prefix, one planned response.
pub fn gen_plain(rng: &mut Rng, length: usize, resp: EntResp, e2: bool) -> NewCase {
    let mut c = NewCase {
        length: Some(length.to_string()),
        entropy: vec![resp],
        tail: None,
        reparse: true,
        ..NewCase::default()
    };
    if e2 {
        c.e2 = Some(e2_params(rng, 0, 1));
        c.cross_e1 = true;
    } else {
        c.wplan = iogen::benign_plan(rng, 100);
    }
    c
}
