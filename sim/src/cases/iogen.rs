//! Seeded generation and shrinking of stream-delivery plans.

use crate::exec::{IoEvent, IoStep};
use crate::prng::Rng;

pub const EIO: i32 = 5;

/// A benign delivery plan for a stream of about `len` bytes: chunking and
/// EINTR only. Styles range from "untouched" to "one byte at a time with
/// EINTR every other call".
pub fn benign_plan(rng: &mut Rng, len: usize) -> Vec<IoStep> {
    let style = rng.weighted(&[3, 2, 3, 2, 2, 1]);
    let mut plan = Vec::new();
    let cap = 400usize;
    match style {
        0 => {}
        1 => {
            // fixed small chunks
            let n = rng.range(1, 9) as u32;
            for _ in 0..(len / n as usize + 3).min(cap) {
                plan.push(IoStep::Chunk(n));
            }
        }
        2 => {
            // random chunks with random EINTRs
            let p = rng.range(0, 3);
            let mut covered = 0usize;
            while covered <= len + 2 && plan.len() < cap {
                if p > 0 && rng.chance(p, 6) {
                    plan.push(IoStep::Eintr);
                } else {
                    let n = match rng.below(4) {
                        0 => 1,
                        1 => rng.range(1, 16),
                        2 => rng.range(1, 200),
                        _ => rng.range(1, 5000),
                    } as u32;
                    covered += n as usize;
                    plan.push(IoStep::Chunk(n));
                }
            }
        }
        3 => {
            // one byte at a time, EINTR every other call
            for i in 0..(2 * len + 6).min(cap) {
                plan.push(if i % 2 == 0 {
                    IoStep::Eintr
                } else {
                    IoStep::Chunk(1)
                });
            }
        }
        4 => {
            // a burst of EINTRs at a random call, otherwise untouched
            let at = rng.range(0, 6) as usize;
            for _ in 0..at {
                plan.push(IoStep::Chunk(1 << 20));
            }
            for _ in 0..rng.range(1, 4) {
                plan.push(IoStep::Eintr);
            }
        }
        _ => {
            // everything in one call except the very last byte, then EINTR before EOF
            if len > 1 {
                plan.push(IoStep::Chunk(len as u32 - 1));
            }
            plan.push(IoStep::Chunk(1));
            plan.push(IoStep::Eintr);
        }
    }
    plan
}

/// Where a hard error may land: among the first calls (most runs: the stream is still live
/// there) or, one time in three, anywhere in the plan — an error after many successful reads,
/// when a reader has already consumed kilobytes, is its own situation.
pub fn hard_error_window(rng: &mut Rng, plan_len: usize) -> usize {
    if rng.chance(1, 3) {
        plan_len + 2
    } else {
        (plan_len + 2).min(8)
    }
}

/// Insert one hard error at a seeded call position.
pub fn with_hard_error(rng: &mut Rng, mut plan: Vec<IoStep>, max_at: usize) -> Vec<IoStep> {
    let at = rng.usize_below(max_at.max(1));
    while plan.len() < at {
        plan.push(IoStep::Chunk(1 << 20));
    }
    // mostly EIO; sometimes another errno that no reader may take for end of input or retry
    // (ENOMEM, EISDIR, ENXIO, ETIMEDOUT, ECONNRESET). Not EBADF (std reads a closed stdin as empty
    // by design) and not EAGAIN (retrying a non-blocking stream is legitimate).
    let errno = *rng.pick(&[EIO, EIO, EIO, 12, 21, 6, 110, 104]);
    plan.insert(at, IoStep::Err(errno));
    plan
}

pub fn has_hard(plan: &[IoStep]) -> bool {
    plan.iter().any(|s| s.is_hard())
}

/// Did a hard error actually reach the program on stream `tag`?
pub fn hard_fired(io: &[IoEvent], tag: char) -> bool {
    io.iter().any(|e| e.tag == tag && e.ret < 0 && e.errno != 4)
}

pub struct Fired {
    pub short: u64,
    pub eintr: u64,
    pub hard: u64,
    pub calls: u64,
}

pub fn fired(io: &[IoEvent], tag: char) -> Fired {
    let mut f = Fired {
        short: 0,
        eintr: 0,
        hard: 0,
        calls: 0,
    };
    for e in io.iter().filter(|e| e.tag == tag) {
        f.calls += 1;
        if e.ret < 0 {
            if e.errno == 4 {
                f.eintr += 1;
            } else {
                f.hard += 1;
            }
        } else if (e.ret as u64) < e.count && e.ret > 0 {
            f.short += 1;
        }
    }
    f
}

pub fn configured(plan: &[IoStep]) -> (u64, u64, u64) {
    let c = plan
        .iter()
        .filter(|s| matches!(s, IoStep::Chunk(_)))
        .count() as u64;
    let e = plan.iter().filter(|s| matches!(s, IoStep::Eintr)).count() as u64;
    let h = plan.iter().filter(|s| s.is_hard()).count() as u64;
    (c, e, h)
}

/// Simpler plans: empty, without EINTRs, first half, merged chunks.
pub fn shrink_plan(plan: &[IoStep]) -> Vec<Vec<IoStep>> {
    let mut out = Vec::new();
    if plan.is_empty() {
        return out;
    }
    let hard: Vec<IoStep> = plan.iter().filter(|s| s.is_hard()).cloned().collect();
    if hard.len() < plan.len() {
        // only the hard error(s), at the earliest position
        out.push(hard.clone());
    }
    if hard.is_empty() {
        out.push(Vec::new());
    }
    if plan.iter().any(|s| matches!(s, IoStep::Eintr)) {
        out.push(
            plan.iter()
                .filter(|s| !matches!(s, IoStep::Eintr))
                .cloned()
                .collect(),
        );
    }
    if plan.len() > 1 {
        out.push(plan[..plan.len() / 2].to_vec());
        out.push(plan[plan.len() / 2..].to_vec());
        // drop one step
        for i in 0..plan.len().min(12) {
            let mut p = plan.to_vec();
            p.remove(i);
            out.push(p);
        }
    }
    out
}
