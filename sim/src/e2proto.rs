//! Wire format between the driver (`simcheck`) and the E2 executor
//! (`threadsim`): one scenario in, one history out, both JSON files.

use serde::{Deserialize, Serialize};

/// One planned response of the entropy device.
#[derive(Clone, Debug, Serialize, Deserialize, PartialEq, Eq)]
pub enum EntResp {
    /// Deliver these bytes (hex).
    Ok(String),
    /// Return -1 with this errno after scribbling `partial` (hex) into the buffer.
    Fail { errno: i32, partial: String },
}

impl EntResp {
    pub fn ok(bytes: &[u8]) -> Self {
        EntResp::Ok(hex::encode(bytes))
    }
    pub fn plan_line(&self, tag: char) -> String {
        match self {
            EntResp::Ok(h) => format!("{tag} ok {h}\n"),
            EntResp::Fail { errno, partial } => format!("{tag} fail {errno} {partial}\n"),
        }
    }
}

/// How E2 decides which task runs at each scheduling point.
#[derive(Clone, Debug, Serialize, Deserialize, PartialEq, Eq)]
pub struct SchedSpec {
    /// "random" | "sticky" | "pct" | "trace"
    pub policy: String,
    pub seed: u64,
    /// sticky: stay probability in 1/256ths; pct: number of priority change points
    pub param: u32,
    /// pct: change points are drawn in 0..horizon
    pub horizon: u32,
    /// "trace": task id to run at each non-forced decision; when exhausted or
    /// not runnable: stay on the current task if runnable, else lowest id.
    pub trace: Vec<u32>,
}

impl SchedSpec {
    pub fn trace(trace: Vec<u32>) -> Self {
        SchedSpec {
            policy: "trace".into(),
            seed: 0,
            param: 0,
            horizon: 0,
            trace,
        }
    }
}

#[derive(Clone, Debug, Serialize, Deserialize, PartialEq, Eq)]
pub struct E2Scenario {
    /// argv for the `new` sub-command, argv[0] = "new". Ignored when lib_tasks > 0.
    pub argv: Vec<String>,
    pub entropy: Vec<EntResp>,
    /// Response repeated for ever after the plan ("generous" device).
    pub tail: Option<EntResp>,
    pub sched: SchedSpec,
    /// Hard cap on scheduling steps before the device turned generous.
    pub max_steps: u32,
    /// Allowed steps after the device turned generous (bounded liveness).
    pub generous_bound: u32,
    /// Allowed entropy requests served from the tail (0 = unlimited): once every response is
    /// a match, each searcher needs at most one more.
    #[serde(default)]
    pub generous_requests: u32,
    /// 0: run the `new` command. n > 0: library scenario, n tasks each calling
    /// `Mnemonic::random(English, lib_len)` `lib_calls` times.
    pub lib_tasks: u32,
    pub lib_len: u32,
    pub lib_calls: u32,
}

#[derive(Clone, Debug, Serialize, Deserialize, PartialEq, Eq)]
pub struct EntEvent {
    pub seq: u32,
    pub task: u32,
    pub len: u32,
    pub ok: bool,
    pub errno: i32,
    /// bytes delivered (hex) when ok
    pub bytes: String,
    /// "plan" | "tail" | "toolong" | "exhausted"
    pub src: String,
    pub step: u32,
}

#[derive(Clone, Debug, Serialize, Deserialize, PartialEq, Eq)]
pub struct PanicEvent {
    pub task: u32,
    pub msg: String,
    pub loc: String,
    pub step: u32,
}

#[derive(Clone, Debug, Serialize, Deserialize, PartialEq, Eq)]
pub struct LibResult {
    pub task: u32,
    pub call: u32,
    /// Ok(phrase) or Err(message)
    pub ok: bool,
    pub text: String,
}

#[derive(Clone, Debug, Default, Serialize, Deserialize, PartialEq, Eq)]
pub struct E2History {
    /// "exit" | "deadlock" | "budget" | "liveness" | "harness"
    pub end: String,
    pub exit: Option<i32>,
    pub detail: String,
    pub steps: u32,
    /// tasks ever created, including main
    pub tasks: u32,
    /// spawned threads that died by panic
    pub died: u32,
    /// tasks not finished when the run ended
    pub unfinished_at_end: u32,
    /// task id chosen at every non-forced decision (replayable)
    pub choices: Vec<u32>,
    /// hash over every decision (runnable set, chosen)
    pub sched_hash: String,
    /// decisions at which the running task changed although it was runnable
    pub preemptions: u32,
    pub entropy: Vec<EntEvent>,
    pub panics: Vec<PanicEvent>,
    pub generous_at_step: Option<u32>,
    pub lib_results: Vec<LibResult>,
    /// spawned tasks that ran to completion before the run ended ...
    pub finished_before_exit: Vec<u32>,
    /// ... and the scheduler step at which each of them did
    #[serde(default)]
    pub finished_steps: Vec<u32>,
    /// a timed Condvar wait was used (shuttle never lets those time out)
    #[serde(default)]
    pub timed_wait_used: bool,
}
