//! Engine E2 executor: one simulated `hdwallet new …` process per OS process.
//!
//! usage: threadsim <scenario.json> <history.json>
//!
//! `src/cmd.rs` and `src/cmd/` are symlinks to /repo/src, so the command code
//! compiled here is the working tree's. With `--cfg hdwallet_verif` the hook
//! in `cmd/new.rs` makes `std::thread` / `std::sync` resolve to
//! `verif_seam::std`, i.e. to shuttle under our seeded recording scheduler;
//! `getentropy` is replaced at link time by the entropy device in `world`.
//! What the command prints goes to this process's real stdout, which the
//! driver captures. When the command's `run` returns in the main task the
//! process exits on the spot (see `world::finish`), which is where
//! `process::exit` happens in /repo/src/main.rs.

#![allow(dead_code, unused_imports)]

mod cmd;
pub mod verif_seam;
mod world;

use clap::Parser;
use simv::e2proto::*;
use std::panic::{catch_unwind, AssertUnwindSafe};
use std::sync::{Arc, Mutex};

fn payload_string(p: &(dyn std::any::Any + Send)) -> String {
    if let Some(s) = p.downcast_ref::<&str>() {
        s.to_string()
    } else if let Some(s) = p.downcast_ref::<String>() {
        s.clone()
    } else {
        "<non-string panic payload>".into()
    }
}

fn lib_scenario(sc: &E2Scenario) {
    use hdwallet::mnemonic::{Language, Mnemonic};
    let n = sc.lib_tasks;
    let len = sc.lib_len as usize;
    let calls = sc.lib_calls;
    let handles: Vec<_> = (0..n)
        .map(|t| {
            shuttle::thread::spawn(move || {
                for c in 0..calls {
                    // a panicking generation is the thread's death, not the executor's
                    let r = match catch_unwind(|| Mnemonic::random(Language::English, len)) {
                        Ok(r) => r,
                        Err(_) => {
                            world::note_task_died();
                            return;
                        }
                    };
                    let (ok, text) = match r {
                        Ok(m) => (true, m.to_phrase()),
                        Err(e) => (false, format!("{e}")),
                    };
                    world::note_lib_result(LibResult {
                        task: t + 1,
                        call: c,
                        ok,
                        text,
                    });
                }
            })
        })
        .collect();
    for h in handles {
        let _ = h.join();
    }
}

fn main() {
    let args: Vec<String> = std::env::args().collect();
    if args.len() != 3 {
        eprintln!("usage: threadsim <scenario.json> <history.json>");
        std::process::exit(78);
    }
    let sc: E2Scenario = match std::fs::read(&args[1])
        .map_err(|e| e.to_string())
        .and_then(|b| serde_json::from_slice(&b).map_err(|e| e.to_string()))
    {
        Ok(s) => s,
        Err(e) => {
            eprintln!("threadsim: bad scenario: {e}");
            std::process::exit(78);
        }
    };
    world::init(sc.clone(), args[2].clone());
    std::panic::set_hook(Box::new(|info| {
        world::note_panic(info);
        eprintln!("{info}");
    }));

    // Argument parsing has no scheduling point; it happens where main.rs does
    // it, before any thread exists. (main.rs itself is the one stub of E2.)
    let opts = if sc.lib_tasks == 0 {
        match catch_unwind(AssertUnwindSafe(|| {
            cmd::new::Options::try_parse_from(&sc.argv)
        })) {
            Ok(Ok(o)) => Some(o),
            Ok(Err(e)) => {
                use clap::error::ErrorKind::*;
                let code = match e.kind() {
                    DisplayHelp | DisplayVersion => {
                        print!("{e}");
                        0
                    }
                    _ => {
                        eprint!("{e}");
                        2
                    }
                };
                world::finish("exit", Some(code), "clap");
            }
            Err(p) => {
                let msg = payload_string(&*p);
                world::finish(
                    "exit",
                    Some(101),
                    &format!("panic while parsing arguments: {msg}"),
                );
            }
        }
    } else {
        None
    };

    let mut config = shuttle::Config::new();
    config.stack_size = 256 * 1024;
    config.failure_persistence = shuttle::FailurePersistence::None;
    config.max_steps = shuttle::MaxSteps::None;
    config.silence_warnings = true;

    let cell = Arc::new(Mutex::new(opts));
    let sc2 = sc.clone();
    let runner = shuttle::Runner::new(world::SimScheduler::new(&sc.sched), config);
    let r = catch_unwind(AssertUnwindSafe(|| {
        runner.run(move || {
            world::enter_execution();
            if sc2.lib_tasks > 0 {
                let r = catch_unwind(AssertUnwindSafe(|| lib_scenario(&sc2)));
                world::finish("exit", Some(if r.is_ok() { 0 } else { 101 }), "lib");
            }
            let opts = cell.lock().unwrap().take().expect("one execution");
            let res = catch_unwind(AssertUnwindSafe(|| cmd::new::run(opts)));
            match res {
                Ok(Ok(())) => world::finish("exit", Some(0), ""),
                Ok(Err(e)) => {
                    eprintln!("ERROR: {e}");
                    world::finish("exit", Some(255), &format!("{e}"))
                }
                Err(p) => match world::stop_reason() {
                    Some(r) => world::finish(r, None, ""),
                    None => world::finish("exit", Some(101), &payload_string(&*p)),
                },
            }
        })
    }));
    // Only reached when the execution ended without the main task exiting.
    match r {
        Err(p) => {
            let msg = payload_string(&*p);
            if msg.starts_with("deadlock!") {
                world::finish("deadlock", None, &msg)
            } else {
                world::finish(
                    "harness",
                    None,
                    &format!("panic escaped the execution: {msg}"),
                )
            }
        }
        Ok(_) => match world::stop_reason() {
            Some(r) => world::finish(r, None, ""),
            None => world::finish("harness", None, "execution ended without exit"),
        },
    }
}
