//! The facade the hook in /repo/src/cmd/new.rs points at
//! (`#[cfg(hdwallet_verif)] use crate::verif_seam::std;`).
//!
//! `verif_seam::std` is the real `std` with two modules replaced: `thread`
//! and `sync` route to shuttle's scheduler-controlled models, so every spawn,
//! channel operation, lock and atomic access made by the `new` command is a
//! scheduling point the simulator decides. Everything else is re-exported
//! unchanged.

#[allow(clippy::module_inception)]
pub mod std {
    pub use ::std::*;

    pub mod process {
        //! `std::process` with `exit` routed to the simulator: the simulated process ends
        //! there (whichever task calls it), with its history recorded.
        pub use ::std::process::*;

        pub fn exit(code: i32) -> ! {
            // exiting is not instantaneous: between the caller's last statement and the moment the
            // process is gone the other threads keep running — a scheduling point (and, under the
            // stall policy, possibly a long one)
            crate::world::before_publish();
            crate::world::finish("exit", Some(code & 0xff), "process::exit")
        }
    }

    pub mod thread {
        //! `std::thread` facade. A panic inside a spawned thread is contained
        //! the way the OS contains it: the thread dies, what it owned is
        //! dropped, `join` reports `Err`, the process lives on.
        use ::std::panic::{catch_unwind, AssertUnwindSafe};

        pub use ::std::thread::Result;
        pub use shuttle::thread::{
            current, park, scope, sleep, yield_now, Scope, ScopedJoinHandle, Thread, ThreadId,
        };

        /// shuttle's `park_timeout` never times out; model the timeout as elapsing at once
        /// (a legal spurious wake-up): a scheduling point that gives the other tasks a turn.
        pub fn park_timeout(_dur: ::std::time::Duration) {
            shuttle::thread::yield_now();
        }

        pub fn panicking() -> bool {
            ::std::thread::panicking()
        }

        pub fn available_parallelism() -> ::std::io::Result<::std::num::NonZeroUsize> {
            // host-independent: the scenario always passes -j explicitly
            Ok(::std::num::NonZeroUsize::new(4).unwrap())
        }

        use ::std::sync::atomic::{AtomicBool, Ordering};
        use ::std::sync::Arc;

        #[derive(Debug)]
        pub struct JoinHandle<T> {
            inner: shuttle::thread::JoinHandle<Result<T>>,
            finished: Arc<AtomicBool>,
        }

        impl<T> JoinHandle<T> {
            pub fn join(self) -> Result<T> {
                match self.inner.join() {
                    Ok(r) => r,
                    Err(e) => Err(e),
                }
            }
            pub fn thread(&self) -> &Thread {
                self.inner.thread()
            }
            pub fn is_finished(&self) -> bool {
                // a polling loop must let the polled thread run: scheduling point
                shuttle::thread::yield_now();
                self.finished.load(Ordering::SeqCst)
            }
        }

        fn contain<F, T>(f: F, finished: Arc<AtomicBool>) -> impl FnOnce() -> Result<T>
        where
            F: FnOnce() -> T,
        {
            move || {
                let r = catch_unwind(AssertUnwindSafe(f));
                if r.is_err() {
                    crate::world::note_task_died();
                }
                crate::world::note_task_finished();
                finished.store(true, Ordering::SeqCst);
                r
            }
        }

        #[track_caller]
        pub fn spawn<F, T>(f: F) -> JoinHandle<T>
        where
            F: FnOnce() -> T + Send + 'static,
            T: Send + 'static,
        {
            crate::world::note_spawn();
            let finished = Arc::new(AtomicBool::new(false));
            JoinHandle {
                inner: shuttle::thread::spawn(contain(f, finished.clone())),
                finished,
            }
        }

        #[derive(Debug, Default)]
        pub struct Builder(Option<String>);

        impl Builder {
            pub fn new() -> Self {
                Builder(None)
            }
            pub fn name(mut self, name: String) -> Self {
                self.0 = Some(name);
                self
            }
            pub fn stack_size(self, _size: usize) -> Self {
                self
            }
            pub fn spawn<F, T>(self, f: F) -> ::std::io::Result<JoinHandle<T>>
            where
                F: FnOnce() -> T + Send + 'static,
                T: Send + 'static,
            {
                crate::world::note_spawn();
                let mut b = shuttle::thread::Builder::new();
                if let Some(n) = self.0 {
                    b = b.name(n);
                }
                let finished = Arc::new(AtomicBool::new(false));
                b.spawn(contain(f, finished.clone()))
                    .map(|inner| JoinHandle { inner, finished })
            }
        }
    }

    pub mod sync {
        pub use ::std::sync::*;

        pub use shuttle::sync::{
            Barrier, BarrierWaitResult, Mutex, MutexGuard, Once, OnceState, RwLock,
            RwLockReadGuard, RwLockWriteGuard, WaitTimeoutResult,
        };

        /// shuttle's condition variable. Its timed waits never time out, which the simulator
        /// cannot repair from outside; it notes that one was used, so that a deadlock verdict of
        /// such a run is not believed without confirmation on the real binary.
        #[derive(Debug, Default)]
        pub struct Condvar(shuttle::sync::Condvar);

        impl Condvar {
            pub const fn new() -> Self {
                Condvar(shuttle::sync::Condvar::new())
            }
            pub fn wait<'a, T>(&self, guard: MutexGuard<'a, T>) -> LockResult<MutexGuard<'a, T>> {
                self.0.wait(guard)
            }
            pub fn wait_while<'a, T, F>(&self, guard: MutexGuard<'a, T>, condition: F) -> LockResult<MutexGuard<'a, T>>
            where
                F: FnMut(&mut T) -> bool,
            {
                self.0.wait_while(guard, condition)
            }
            pub fn wait_timeout<'a, T>(
                &self,
                guard: MutexGuard<'a, T>,
                dur: ::std::time::Duration,
            ) -> LockResult<(MutexGuard<'a, T>, WaitTimeoutResult)> {
                crate::world::note_timed_wait();
                self.0.wait_timeout(guard, dur)
            }
            pub fn wait_timeout_while<'a, T, F>(
                &self,
                guard: MutexGuard<'a, T>,
                dur: ::std::time::Duration,
                condition: F,
            ) -> LockResult<(MutexGuard<'a, T>, WaitTimeoutResult)>
            where
                F: FnMut(&mut T) -> bool,
            {
                crate::world::note_timed_wait();
                self.0.wait_timeout_while(guard, dur, condition)
            }
            pub fn notify_one(&self) {
                self.0.notify_one()
            }
            pub fn notify_all(&self) {
                self.0.notify_all()
            }
        }

        pub mod mpsc {
            //! shuttle's channel, with timeouts modelled: shuttle's `recv_timeout` never
            //! times out, which would turn a polling receiver into a false deadlock. Here
            //! a timeout elapses after the other tasks were offered `PATIENCE` scheduling
            //! points without a message arriving (a timer firing early is always legal).
            use ::std::time::{Duration, Instant};

            pub use shuttle::sync::mpsc::{
                RecvError, RecvTimeoutError, SendError, TryRecvError, TrySendError,
            };

            /// shuttle's sender with one addition: the start of a `send` is reported to the
            /// simulator, whose "stall" policy may keep the sending task off the processor for
            /// a long stretch right there — a message in flight is where first-message-wins
            /// protocols race, and a long preemption at that point is what real schedulers do
            /// and a step-by-step random walk practically never does.
            #[derive(Debug)]
            pub struct Sender<T>(shuttle::sync::mpsc::Sender<T>);
            #[derive(Debug)]
            pub struct SyncSender<T>(shuttle::sync::mpsc::SyncSender<T>);

            impl<T> Clone for Sender<T> {
                fn clone(&self) -> Self {
                    Sender(self.0.clone())
                }
            }
            impl<T> Clone for SyncSender<T> {
                fn clone(&self) -> Self {
                    SyncSender(self.0.clone())
                }
            }
            impl<T> Sender<T> {
                pub fn send(&self, t: T) -> Result<(), SendError<T>> {
                    crate::world::before_publish();
                    self.0.send(t)
                }
            }
            impl<T> SyncSender<T> {
                pub fn send(&self, t: T) -> Result<(), SendError<T>> {
                    crate::world::before_publish();
                    self.0.send(t)
                }
                pub fn try_send(&self, t: T) -> Result<(), TrySendError<T>> {
                    crate::world::before_publish();
                    self.0.try_send(t)
                }
            }

            const PATIENCE: usize = 4;

            #[derive(Debug)]
            pub struct Receiver<T>(shuttle::sync::mpsc::Receiver<T>);

            pub fn channel<T>() -> (Sender<T>, Receiver<T>) {
                let (s, r) = shuttle::sync::mpsc::channel();
                (Sender(s), Receiver(r))
            }

            pub fn sync_channel<T>(bound: usize) -> (SyncSender<T>, Receiver<T>) {
                let (s, r) = shuttle::sync::mpsc::sync_channel(bound);
                (SyncSender(s), Receiver(r))
            }

            impl<T> Receiver<T> {
                pub fn recv(&self) -> Result<T, RecvError> {
                    self.0.recv()
                }
                pub fn try_recv(&self) -> Result<T, TryRecvError> {
                    self.0.try_recv()
                }
                pub fn recv_timeout(&self, _timeout: Duration) -> Result<T, RecvTimeoutError> {
                    for _ in 0..PATIENCE {
                        match self.0.try_recv() {
                            Ok(v) => return Ok(v),
                            Err(TryRecvError::Disconnected) => {
                                return Err(RecvTimeoutError::Disconnected)
                            }
                            Err(TryRecvError::Empty) => shuttle::thread::yield_now(),
                        }
                    }
                    match self.0.try_recv() {
                        Ok(v) => Ok(v),
                        Err(TryRecvError::Disconnected) => Err(RecvTimeoutError::Disconnected),
                        Err(TryRecvError::Empty) => Err(RecvTimeoutError::Timeout),
                    }
                }
                pub fn recv_deadline(&self, _deadline: Instant) -> Result<T, RecvTimeoutError> {
                    self.recv_timeout(Duration::ZERO)
                }
                pub fn iter(&self) -> Iter<'_, T> {
                    Iter { rx: self }
                }
                pub fn try_iter(&self) -> TryIter<'_, T> {
                    TryIter { rx: self }
                }
            }

            #[derive(Debug)]
            pub struct Iter<'a, T: 'a> {
                rx: &'a Receiver<T>,
            }
            #[derive(Debug)]
            pub struct TryIter<'a, T: 'a> {
                rx: &'a Receiver<T>,
            }
            #[derive(Debug)]
            pub struct IntoIter<T> {
                rx: Receiver<T>,
            }
            impl<T> Iterator for Iter<'_, T> {
                type Item = T;
                fn next(&mut self) -> Option<T> {
                    self.rx.recv().ok()
                }
            }
            impl<T> Iterator for TryIter<'_, T> {
                type Item = T;
                fn next(&mut self) -> Option<T> {
                    self.rx.try_recv().ok()
                }
            }
            impl<T> Iterator for IntoIter<T> {
                type Item = T;
                fn next(&mut self) -> Option<T> {
                    self.rx.recv().ok()
                }
            }
            impl<'a, T> IntoIterator for &'a Receiver<T> {
                type Item = T;
                type IntoIter = Iter<'a, T>;
                fn into_iter(self) -> Iter<'a, T> {
                    self.iter()
                }
            }
            impl<T> IntoIterator for Receiver<T> {
                type Item = T;
                type IntoIter = IntoIter<T>;
                fn into_iter(self) -> IntoIter<T> {
                    IntoIter { rx: self }
                }
            }
        }

        pub mod atomic {
            pub use ::std::sync::atomic::*;

            pub use shuttle::sync::atomic::{
                AtomicBool, AtomicI16, AtomicI32, AtomicI64, AtomicI8, AtomicIsize, AtomicPtr,
                AtomicU16, AtomicU32, AtomicU64, AtomicU8, AtomicUsize,
            };
        }
    }
}
