//! The facade the hook in /repo/src/cmd/new.rs points at
//! (`#[cfg(hdwallet_verif)] use crate::verif_seam::std;`).
//!
//! `verif_seam::std` is the real `std` with two modules replaced: `thread`
//! and `sync` route to shuttle's scheduler-controlled models, so every spawn,
//! channel operation, lock and atomic access made by the `new` command is a
//! scheduling point the simulator decides. Everything else is re-exported
//! unchanged.

#[allow(clippy::module_inception)]
pub mod std {
    pub use ::std::*;

    pub mod thread {
        //! `std::thread` facade. A panic inside a spawned thread is contained
        //! the way the OS contains it: the thread dies, what it owned is
        //! dropped, `join` reports `Err`, the process lives on.
        use ::std::panic::{catch_unwind, AssertUnwindSafe};

        pub use ::std::thread::Result;
        pub use shuttle::thread::{
            current, park, park_timeout, sleep, yield_now, scope, Scope, ScopedJoinHandle, Thread, ThreadId,
        };

        pub fn panicking() -> bool {
            ::std::thread::panicking()
        }

        pub fn available_parallelism() -> ::std::io::Result<::std::num::NonZeroUsize> {
            // host-independent: the scenario always passes -j explicitly
            Ok(::std::num::NonZeroUsize::new(4).unwrap())
        }

        #[derive(Debug)]
        pub struct JoinHandle<T>(shuttle::thread::JoinHandle<Result<T>>);

        impl<T> JoinHandle<T> {
            pub fn join(self) -> Result<T> {
                match self.0.join() {
                    Ok(r) => r,
                    Err(e) => Err(e),
                }
            }
            pub fn thread(&self) -> &Thread {
                self.0.thread()
            }
            pub fn is_finished(&self) -> bool {
                // shuttle has no non-blocking query; conservative answer
                false
            }
        }

        fn contain<F, T>(f: F) -> impl FnOnce() -> Result<T>
        where
            F: FnOnce() -> T,
        {
            move || {
                let r = catch_unwind(AssertUnwindSafe(f));
                if r.is_err() {
                    crate::world::note_task_died();
                }
                crate::world::note_task_finished();
                r
            }
        }

        #[track_caller]
        pub fn spawn<F, T>(f: F) -> JoinHandle<T>
        where
            F: FnOnce() -> T + Send + 'static,
            T: Send + 'static,
        {
            crate::world::note_spawn();
            JoinHandle(shuttle::thread::spawn(contain(f)))
        }

        #[derive(Debug, Default)]
        pub struct Builder(Option<String>);

        impl Builder {
            pub fn new() -> Self {
                Builder(None)
            }
            pub fn name(mut self, name: String) -> Self {
                self.0 = Some(name);
                self
            }
            pub fn stack_size(self, _size: usize) -> Self {
                self
            }
            pub fn spawn<F, T>(self, f: F) -> ::std::io::Result<JoinHandle<T>>
            where
                F: FnOnce() -> T + Send + 'static,
                T: Send + 'static,
            {
                crate::world::note_spawn();
                let mut b = shuttle::thread::Builder::new();
                if let Some(n) = self.0 {
                    b = b.name(n);
                }
                b.spawn(contain(f)).map(JoinHandle)
            }
        }
    }

    pub mod sync {
        pub use ::std::sync::*;

        pub use shuttle::sync::{
            Barrier, BarrierWaitResult, Condvar, Mutex, MutexGuard, Once, OnceState, RwLock, RwLockReadGuard,
            RwLockWriteGuard, WaitTimeoutResult,
        };

        pub mod mpsc {
            pub use shuttle::sync::mpsc::*;
        }

        pub mod atomic {
            pub use ::std::sync::atomic::*;

            pub use shuttle::sync::atomic::{
                AtomicBool, AtomicI16, AtomicI32, AtomicI64, AtomicI8, AtomicIsize, AtomicPtr, AtomicU16, AtomicU32,
                AtomicU64, AtomicU8, AtomicUsize,
            };
        }
    }
}
