//! SimOS for engine E2: the entropy device (link-time replacement of libc's
//! `getentropy`), the event log, the seeded recording scheduler, and process
//! exit. All tasks run on the runner's OS thread (shuttle continuations), so
//! the `std::sync::Mutex` around the world is never contended; it is never
//! held across a scheduling point.

use shuttle::scheduler::{Schedule, Scheduler, Task, TaskId};
use simv::e2proto::*;
use simv::prng::{Fnv, Rng};
use std::io::Write as _;
use std::os::raw::c_int;
use std::sync::Mutex;

pub struct World {
    pub sc: E2Scenario,
    pub hist: E2History,
    pub history_path: String,
    pub next_seq: u32,
    pub steps: u32,
    pub stop_reason: Option<&'static str>,
    pub sched_hash: Fnv,
    pub current: u32,
    pub runner_thread: Option<std::thread::ThreadId>,
    pub in_execution: bool,
    pub tail_requests: u32,
    /// position in the entropy plan (responses consumed so far)
    pub plan_pos: usize,
    /// "stall" policy: (task, first step at which it may run again)
    pub stalled: Vec<(u32, u32)>,
    pub stalls_left: u32,
    pub stall_rng: Rng,
}

static WORLD: Mutex<Option<World>> = Mutex::new(None);

fn with<R>(f: impl FnOnce(&mut World) -> R) -> R {
    let mut g = WORLD.lock().unwrap_or_else(|e| e.into_inner());
    f(g.as_mut().expect("world initialised"))
}

pub fn init(sc: E2Scenario, history_path: String) {
    *WORLD.lock().unwrap() = Some(World {
        sc,
        hist: E2History::default(),
        history_path,
        next_seq: 0,
        steps: 0,
        stop_reason: None,
        sched_hash: Fnv::new(),
        current: 0,
        runner_thread: None,
        in_execution: false,
        tail_requests: 0,
        plan_pos: 0,
        stalled: Vec::new(),
        stalls_left: 0,
        stall_rng: Rng::new(0),
    });
}

/// Called by the facade at the start of an operation that publishes a result to other threads
/// (channel send). Under the "stall" policy the publishing task may be held back here for a
/// long, seeded number of steps while everybody else runs.
pub fn before_publish() {
    let stall = with(|w| {
        if w.sc.sched.policy != "stall" || w.stalls_left == 0 || !w.in_execution {
            return false;
        }
        if !w.stall_rng.chance(1, 2) {
            return false;
        }
        w.stalls_left -= 1;
        let d = match w.stall_rng.below(3) {
            0 => w.stall_rng.range(4, 40),
            1 => w.stall_rng.range(40, 400),
            _ => w.stall_rng.range(400, 2000),
        } as u32;
        let until = w.steps + d;
        let task = w.current;
        w.stalled.push((task, until));
        true
    });
    let _ = stall;
    // A plain context switch, under every policy (so that a recorded trace lines up whatever
    // policy produced it): if the task was just stalled the scheduler will not pick it again
    // before the stall is over, unless nobody else can run.
    if with(|w| w.in_execution) {
        shuttle::thread::sleep(std::time::Duration::ZERO);
    }
}

pub fn enter_execution() {
    with(|w| {
        w.stalls_left = if w.sc.sched.policy == "stall" { w.sc.sched.param.max(1) } else { 0 };
        w.stall_rng = Rng::new(w.sc.sched.seed ^ 0x57a1_1000);
        w.runner_thread = Some(std::thread::current().id());
        w.in_execution = true;
        w.hist.tasks = 1;
    });
}

pub fn note_timed_wait() {
    with(|w| w.hist.timed_wait_used = true);
}

pub fn note_spawn() {
    with(|w| w.hist.tasks += 1);
}

pub fn note_task_died() {
    with(|w| w.hist.died += 1);
}

pub fn note_task_finished() {
    let task = current_task();
    with(|w| {
        w.hist.finished_before_exit.push(task);
        let step = w.steps;
        w.hist.finished_steps.push(step);
    });
}

pub fn note_lib_result(r: LibResult) {
    with(|w| w.hist.lib_results.push(r));
}

pub fn stop_reason() -> Option<&'static str> {
    with(|w| w.stop_reason)
}

fn current_task() -> u32 {
    let id: usize = shuttle::current::me().into();
    id as u32
}

pub fn note_panic(info: &std::panic::PanicHookInfo<'_>) {
    let msg = if let Some(s) = info.payload().downcast_ref::<&str>() {
        s.to_string()
    } else if let Some(s) = info.payload().downcast_ref::<String>() {
        s.clone()
    } else {
        "<non-string panic payload>".to_string()
    };
    let loc = info
        .location()
        .map(|l| format!("{}:{}", l.file(), l.line()))
        .unwrap_or_default();
    if msg.starts_with("deadlock!")
        && (loc.contains("shuttle-engine") || loc.contains("shuttle-std"))
    {
        // shuttle's verdict that no task can run while an attached task is
        // unfinished. The simulated process would sit there for ever; record
        // it and leave before any unwinding starts.
        finish("deadlock", None, &msg);
    }
    // try_lock: a panic raised while the world is borrowed must not deadlock the hook
    if let Ok(mut g) = WORLD.try_lock() {
        if let Some(w) = g.as_mut() {
            let task = if w.in_execution { w.current } else { u32::MAX };
            let step = w.steps;
            w.hist.panics.push(PanicEvent {
                task,
                msg,
                loc,
                step,
            });
        }
    }
}

/// End of the simulated process: flush what the program printed, persist the
/// history, and really exit. Suspended worker tasks die with the process,
/// exactly as threads die in `process::exit`.
pub fn finish(end: &str, exit: Option<i32>, detail: &str) -> ! {
    let _ = std::io::stdout().flush();
    let (path, body, code) = with(|w| {
        w.hist.end = end.to_string();
        w.hist.exit = exit;
        w.hist.detail = detail.to_string();
        w.hist.steps = w.steps;
        w.hist.sched_hash = format!("{:016x}", w.sched_hash.finish());
        let finished = w.hist.finished_before_exit.len() as u32;
        // main is not in finished_before_exit when it is the one exiting
        w.hist.unfinished_at_end = w.hist.tasks.saturating_sub(finished + 1);
        let code = match (end, exit) {
            ("exit", Some(c)) => c & 0xff,
            ("deadlock", _) => 71,
            ("budget", _) => 72,
            ("liveness", _) => 73,
            _ => 70,
        };
        (
            w.history_path.clone(),
            serde_json::to_vec(&w.hist).expect("history json"),
            code,
        )
    });
    if std::fs::write(&path, body).is_err() {
        unsafe { libc::_exit(79) }
    }
    unsafe { libc::_exit(code) }
}

// ---------------------------------------------------------------------------
// Entropy device
// ---------------------------------------------------------------------------

fn real_entropy(buf: *mut u8, len: usize) -> c_int {
    if len > 256 {
        unsafe { *libc::__errno_location() = libc::EIO };
        return -1;
    }
    let mut got = 0usize;
    while got < len {
        let r = unsafe { libc::syscall(libc::SYS_getrandom, buf.add(got), len - got, 0) };
        if r < 0 {
            if unsafe { *libc::__errno_location() } == libc::EINTR {
                continue;
            }
            return -1;
        }
        got += r as usize;
    }
    0
}

/// Replaces libc's `getentropy` for the whole executable at link time, so the
/// unmodified `hdwallet::rand::get_entropy` lands here. Never unwinds.
#[no_mangle]
pub unsafe extern "C" fn getentropy(buf: *mut u8, len: usize) -> c_int {
    entropy_device(buf, len, true)
}

/// `getrandom(2)` asking for blocking, secure bytes is the same source (glibc's getentropy is
/// built on it). Requests with GRND_NONBLOCK / GRND_INSECURE are the runtime's own (std's
/// HashMap keys) and go to the kernel.
#[no_mangle]
pub unsafe extern "C" fn getrandom(buf: *mut u8, len: usize, flags: std::os::raw::c_uint) -> isize {
    let in_task = {
        let g = WORLD.lock().unwrap_or_else(|e| e.into_inner());
        g.as_ref().map(|w| w.in_execution).unwrap_or(false)
    };
    if !in_task || flags & 5 != 0 {
        let r = libc::syscall(libc::SYS_getrandom, buf, len, flags);
        return r as isize;
    }
    let n = len.min(256);
    if entropy_device(buf, n, false) < 0 {
        -1
    } else {
        n as isize
    }
}

unsafe fn entropy_device(buf: *mut u8, len: usize, cap256: bool) -> c_int {
    enum Ctx {
        Outside,
        Escaped,
        Task,
    }
    let ctx = {
        let g = WORLD.lock().unwrap_or_else(|e| e.into_inner());
        match g.as_ref() {
            Some(w) if w.in_execution => {
                if w.runner_thread == Some(std::thread::current().id()) {
                    Ctx::Task
                } else {
                    Ctx::Escaped
                }
            }
            _ => Ctx::Outside,
        }
    };
    match ctx {
        Ctx::Outside => return real_entropy(buf, len),
        Ctx::Escaped => {
            // A real OS thread reached the device: the code under test created
            // a thread the simulator does not schedule. No verdict is possible.
            eprintln!("threadsim: getentropy called from an uncontrolled OS thread");
            libc::_exit(74)
        }
        Ctx::Task => {}
    }

    // scheduling point before the device acts (a plain context switch, not a yield: the
    // yield hint is reserved for code that really spins or polls)
    shuttle::thread::sleep(std::time::Duration::ZERO);

    let task = current_task();
    let (ret, errno) = with(|w| {
        let seq = w.next_seq;
        w.next_seq += 1;
        let step = w.steps;
        let out = std::slice::from_raw_parts_mut(buf, len);
        let mut ev = EntEvent {
            seq,
            task,
            len: len as u32,
            ok: false,
            errno: 0,
            bytes: String::new(),
            src: "plan".to_string(),
            step,
        };
        // The source is a byte stream: a request larger than one planned response continues with
        // the following ones, a smaller one gets a prefix (the rest of that response is gone), a
        // failure anywhere in the stretch fails the whole request. Same as the preload shim.
        let mut r = (0, 0);
        let mut filled = 0usize;
        let mut from_tail = false;
        if cap256 && len > 256 {
            r = (-1, libc::EIO);
            ev.src = "toolong".into();
        }
        while r.0 == 0 && filled < len {
            let resp = if w.plan_pos < w.sc.entropy.len() {
                w.plan_pos += 1;
                Some(w.sc.entropy[w.plan_pos - 1].clone())
            } else if let Some(t) = &w.sc.tail {
                from_tail = true;
                Some(t.clone())
            } else {
                None
            };
            match resp {
                Some(EntResp::Ok(h)) => {
                    let bytes = hex::decode(&h).unwrap_or_default();
                    if bytes.is_empty() {
                        for b in out[filled..].iter_mut() {
                            *b = 0xA5;
                        }
                        filled = len;
                    } else {
                        let n = (len - filled).min(bytes.len());
                        out[filled..filled + n].copy_from_slice(&bytes[..n]);
                        filled += n;
                    }
                }
                Some(EntResp::Fail { errno, partial }) => {
                    let bytes = hex::decode(&partial).unwrap_or_default();
                    let n = (len - filled).min(bytes.len());
                    out[filled..filled + n].copy_from_slice(&bytes[..n]);
                    r = (-1, errno);
                }
                None => {
                    r = (-1, libc::ENOSYS);
                    ev.src = "exhausted".into();
                }
            }
        }
        if from_tail {
            ev.src = "tail".into();
            if w.hist.generous_at_step.is_none() {
                w.hist.generous_at_step = Some(step);
            }
            w.tail_requests += 1;
            if w.sc.generous_requests > 0 && w.tail_requests > w.sc.generous_requests {
                w.stop_reason = Some("liveness");
            }
        }
        if r.0 == 0 {
            ev.ok = true;
            ev.bytes = hex::encode(&*out);
        } else {
            ev.errno = r.1;
        }
        w.hist.entropy.push(ev);
        r
    });

    if stop_reason() == Some("liveness") {
        // every response has been a match for a while and the searchers keep asking
        finish(
            "liveness",
            None,
            "entropy requests after the device turned generous",
        );
    }

    // scheduling point after the buffer was filled and before the caller sees it
    shuttle::thread::sleep(std::time::Duration::ZERO);

    if ret < 0 {
        *libc::__errno_location() = errno;
    }
    ret
}

// ---------------------------------------------------------------------------
// Scheduler
// ---------------------------------------------------------------------------

pub struct SimScheduler {
    spec: SchedSpec,
    rng: Rng,
    started: bool,
    trace_pos: usize,
    // pct
    priorities: Vec<u64>,
    change_points: Vec<u32>,
    low_water: u64,
}

impl SimScheduler {
    pub fn new(spec: &SchedSpec) -> Self {
        let mut rng = Rng::new(spec.seed);
        let mut change_points = Vec::new();
        if spec.policy == "pct" || spec.policy == "stall" {
            for _ in 0..spec.param {
                change_points.push(rng.below(spec.horizon.max(1) as u64) as u32);
            }
        }
        SimScheduler {
            spec: spec.clone(),
            rng,
            started: false,
            trace_pos: 0,
            priorities: Vec::new(),
            change_points,
            low_water: 1 << 20,
        }
    }

    fn priority(&mut self, task: usize) -> u64 {
        while self.priorities.len() <= task {
            // fresh tasks get a random priority above the demotion band
            let p = (1 << 21) + self.rng.below(1 << 40);
            self.priorities.push(p);
        }
        self.priorities[task]
    }
}

impl Scheduler for SimScheduler {
    fn new_execution(&mut self) -> Option<Schedule> {
        if self.started {
            None
        } else {
            self.started = true;
            Some(Schedule::new(self.spec.seed))
        }
    }

    fn next_task(
        &mut self,
        runnable: &[&Task],
        current: Option<TaskId>,
        is_yielding: bool,
    ) -> Option<TaskId> {
        let all_ids: Vec<usize> = runnable.iter().map(|t| t.id().into()).collect();
        // "stall" policy: stalled tasks sit out while anybody else can run
        let ids: Vec<usize> = with(|w| {
            let now = w.steps + 1;
            w.stalled.retain(|(_, until)| *until > now);
            let free: Vec<usize> = all_ids.iter().copied().filter(|id| !w.stalled.iter().any(|(t, _)| *t as usize == *id)).collect();
            if free.is_empty() {
                // everybody who could run is stalled: the stalls end early
                w.stalled.clear();
                all_ids.clone()
            } else {
                free
            }
        });
        let cur: Option<usize> = current.map(|c| c.into());
        let cur_runnable = cur.map(|c| ids.contains(&c)).unwrap_or(false);

        // step accounting and bounds
        let stop = with(|w| {
            w.steps += 1;
            match w.hist.generous_at_step {
                Some(g) if w.steps - g > w.sc.generous_bound => {
                    w.stop_reason = Some("liveness");
                    true
                }
                None if w.steps > w.sc.max_steps => {
                    w.stop_reason = Some("budget");
                    true
                }
                _ => false,
            }
        });
        if stop {
            // End the simulated process here, without tearing the execution
            // down: a task suspended inside the device sits in an extern "C"
            // frame that must never be unwound.
            let r = with(|w| w.stop_reason).unwrap_or("budget");
            finish(r, None, "");
        }

        let step = with(|w| w.steps);
        let fallback = |ids: &[usize]| if cur_runnable { cur.unwrap() } else { ids[0] };
        let chosen = if ids.len() == 1 {
            ids[0]
        } else {
            let c = match self.spec.policy.as_str() {
                "random" => ids[self.rng.usize_below(ids.len())],
                "stall" => {
                    // besides the stalls at publication points (before_publish), the running task
                    // is preempted for a long stretch at `param` seeded steps of the run
                    if cur_runnable && self.change_points.contains(&step) {
                        let d = match self.rng.below(3) {
                            0 => self.rng.range(4, 40),
                            1 => self.rng.range(40, 400),
                            _ => self.rng.range(400, 2000),
                        } as u32;
                        let victim = cur.unwrap() as u32;
                        with(|w| w.stalled.push((victim, step + d)));
                        let rest: Vec<usize> = ids.iter().copied().filter(|i| *i as u32 != victim).collect();
                        if rest.is_empty() {
                            ids[0]
                        } else {
                            rest[self.rng.usize_below(rest.len())]
                        }
                    } else {
                        ids[self.rng.usize_below(ids.len())]
                    }
                }
                "sticky" => {
                    // a task that yields (spin/poll loop) is not kept running
                    if cur_runnable && !is_yielding && self.rng.below(256) < self.spec.param as u64
                    {
                        cur.unwrap()
                    } else {
                        ids[self.rng.usize_below(ids.len())]
                    }
                }
                "pct" => {
                    // priority change points, and every explicit yield, demote the running task:
                    // without the latter a top-priority poller would starve everyone for ever
                    if cur_runnable && (is_yielding || self.change_points.contains(&step)) {
                        self.low_water -= 1;
                        let c = cur.unwrap();
                        self.priority(c);
                        self.priorities[c] = self.low_water;
                    }
                    let mut best = ids[0];
                    let mut best_p = 0u64;
                    for id in &ids {
                        let p = self.priority(*id);
                        if p >= best_p {
                            best = *id;
                            best_p = p;
                        }
                    }
                    best
                }
                _ => {
                    // "trace": explicit replay
                    let want = self.spec.trace.get(self.trace_pos).map(|t| *t as usize);
                    self.trace_pos += 1;
                    match want {
                        Some(t) if ids.contains(&t) => t,
                        _ => fallback(&ids),
                    }
                }
            };
            with(|w| w.hist.choices.push(c as u32));
            c
        };

        with(|w| {
            if cur_runnable && cur != Some(chosen) {
                w.hist.preemptions += 1;
            }
            let mut bytes = Vec::with_capacity(ids.len() + 2);
            for id in &ids {
                bytes.push(*id as u8);
            }
            bytes.push(0xfe);
            bytes.push(chosen as u8);
            w.sched_hash.write(&bytes);
            w.current = chosen as u32;
        });
        Some(TaskId::from(chosen))
    }

    fn next_u64(&mut self) -> u64 {
        self.rng.next_u64()
    }
}
