//! Library scenario for engine E3: N real threads call `Mnemonic::random`
//! concurrently. Run under the preload shim, which supplies the entropy and
//! schedules the threads; no getentropy override and no hook in here.
//!
//! usage: libprobe <tasks> <words> <calls>
//! stdout: one line per generation, "<task> <call> ok <phrase>" | "<task> <call> err <message>"

use hdwallet::mnemonic::{Language, Mnemonic};

fn main() {
    let a: Vec<usize> = std::env::args().skip(1).filter_map(|s| s.parse().ok()).collect();
    if a.len() != 3 {
        eprintln!("usage: libprobe <tasks> <words> <calls>");
        std::process::exit(2);
    }
    let (tasks, words, calls) = (a[0], a[1], a[2]);
    let handles: Vec<_> = (1..=tasks)
        .map(|t| {
            std::thread::spawn(move || {
                let mut lines = Vec::new();
                for c in 0..calls {
                    match Mnemonic::random(Language::English, words) {
                        Ok(m) => lines.push(format!("{t} {c} ok {}", m.to_phrase())),
                        Err(e) => lines.push(format!("{t} {c} err {}", format!("{e}").replace('\n', " "))),
                    }
                }
                lines
            })
        })
        .collect();
    let mut out = String::new();
    for (i, h) in handles.into_iter().enumerate() {
        match h.join() {
            Ok(lines) => {
                for l in lines {
                    out.push_str(&l);
                    out.push('\n');
                }
            }
            Err(_) => out.push_str(&format!("{} - panic\n", i + 1)),
        }
    }
    print!("{out}");
}
