//! `simcheck check <property> [quick|thorough] [--replay FILE]`
//! exit 0: property held on everything explored; 1: VIOLATION printed; 2: harness error.

use simv::cases::acctcase::C16Plan;
use simv::cases::c17plan::C17Plan;
use simv::cases::hexcase::HexPlan;
use simv::cases::newplans::{C12Plan, C18Plan};
use simv::exec::Ctx;
use simv::framework::{replay, run_check, Plan};
use std::path::PathBuf;

fn usage() -> ! {
    eprintln!("usage: simcheck check <C12|C16|C17|C18|C19> [quick|thorough] [--replay FILE]");
    std::process::exit(2);
}

fn main() {
    let args: Vec<String> = std::env::args().skip(1).collect();
    if args.len() < 2 || args[0] != "check" {
        usage();
    }
    let property = args[1].clone();
    let mut tier = std::env::var("VERIF_TIER")
        .ok()
        .filter(|t| t == "quick" || t == "thorough")
        .unwrap_or_else(|| "quick".into());
    let mut replay_file: Option<PathBuf> = None;
    let mut i = 2;
    while i < args.len() {
        match args[i].as_str() {
            "quick" | "thorough" => tier = args[i].clone(),
            "--replay" => {
                i += 1;
                replay_file = Some(PathBuf::from(
                    args.get(i).cloned().unwrap_or_else(|| usage()),
                ));
            }
            _ => usage(),
        }
        i += 1;
    }
    let seed: u64 = std::env::var("VERIF_SEED")
        .ok()
        .and_then(|s| s.parse().ok())
        .unwrap_or(1);
    let threads: usize = std::env::var("VERIF_THREADS")
        .ok()
        .and_then(|s| s.parse().ok())
        .unwrap_or_else(|| {
            std::thread::available_parallelism()
                .map(|n| n.get())
                .unwrap_or(4)
                .min(16)
        });
    let ctx = Ctx::from_env();
    if !ctx.threadsim.exists() {
        // bin/build could not compile the E2 executor against this tree (see its note): every
        // scenario runs on the real binary (E1/E3)
        println!("note: engine E2 is unavailable for this tree; threaded scenarios use engine E3 only");
        simv::exec::E2_UNUSABLE.store(1000, std::sync::atomic::Ordering::Relaxed);
    }
    for p in [&ctx.hdwallet, &ctx.libprobe, &ctx.shim] {
        if !p.exists() {
            eprintln!(
                "harness error: {} is missing (run /verif/bin/setup)",
                p.display()
            );
            std::process::exit(2);
        }
    }
    let code = if let Some(f) = replay_file {
        replay(&ctx, &f)
    } else {
        let quick = tier == "quick";
        let (plan, level): (Box<dyn Plan>, &str) = match property.as_str() {
            "C12" => (
                Box::new(C12Plan {
                    seed,
                    seeded: if quick { 8_000 } else { 150_000 },
                }),
                "exploration",
            ),
            "C16" => (
                Box::new(C16Plan {
                    seed,
                    seeded: if quick { 15_000 } else { 200_000 },
                }),
                "exploration",
            ),
            "C18" => (
                Box::new(C18Plan {
                    seed,
                    seeded: if quick { 10_000 } else { 200_000 },
                }),
                "exploration",
            ),
            "C17" => (
                Box::new(C17Plan {
                    seed,
                    seeded_new: if quick { 3_000 } else { 60_000 },
                    seeded_crash: if quick { 30_000 } else { 500_000 },
                }),
                "exploration",
            ),
            "C19" => (
                Box::new(HexPlan {
                    seed,
                    seeded: if quick { 40_000 } else { 400_000 },
                }),
                "exploration",
            ),
            _ => {
                eprintln!("harness error: no check for property {property}");
                std::process::exit(2);
            }
        };
        run_check(&ctx, &property, level, &tier, seed, plan.as_ref(), threads).exit_code
    };
    ctx.cleanup();
    std::process::exit(code);
}
