#!/usr/bin/env python3
"""Generates /verif/conforming/<name>.patch: refactorings of /repo that KEEP every claimed property.
`bin/selftest specificity` applies each and requires every check to exit 0 (no false alarm)."""
import json, os, subprocess, sys, tempfile, shutil

V = []
def var(name, desc, edits):
    V.append(dict(name=name, desc=desc, edits=edits))

SPAWN_OLD = ("            let (sender, receiver) = mpsc::channel();\n            let _threads = (0..options.vanity_threads)\n                .map(|_| {\n"
             "                    thread::spawn({\n                        let vanity = vanity.clone();\n                        let result = sender.clone();\n"
             "                        move || {\n                            let _ = result.send(vanity());\n                        }\n                    })\n"
             "                })\n                .collect::<Vec<_>>();\n\n            receiver.recv().unwrap()?\n")

var("conf-entropy-pool-readahead", "get_entropy serves requests of up to 64 bytes from a thread-local 256-byte pool that is refilled from the OS when it runs short (read-ahead; every byte used once)",
    [("src/rand.rs", "pub fn get_entropy(mut buf: impl AsMut<[u8]>) -> io::Result<()> {\n    let buf = buf.as_mut();\n",
      "pub fn get_entropy(mut buf: impl AsMut<[u8]>) -> io::Result<()> {\n    let buf = buf.as_mut();\n    if buf.len() <= 64 {\n        return POOL.with(|pool| {\n            let mut pool = pool.borrow_mut();\n            let (bytes, used) = &mut *pool;\n            if *used + buf.len() > bytes.len() {\n                fill(&mut bytes[..])?;\n                *used = 0;\n            }\n            buf.copy_from_slice(&bytes[*used..*used + buf.len()]);\n            bytes[*used..*used + buf.len()].fill(0);\n            *used += buf.len();\n            Ok(())\n        });\n    }\n    fill(buf)\n}\n\nthread_local! {\n    static POOL: std::cell::RefCell<([u8; 256], usize)> = const { std::cell::RefCell::new(([0; 256], 256)) };\n}\n\nfn fill(buf: &mut [u8]) -> io::Result<()> {\n")])
var("conf-drop-sender", "main drops its Sender after spawning and turns a closed channel into an error instead of unwrapping",
    [("src/cmd/new.rs", "                .collect::<Vec<_>>();\n\n            receiver.recv().unwrap()?\n",
      "                .collect::<Vec<_>>();\n            drop(sender);\n\n            receiver\n                .recv()\n                .context(\"vanity search threads terminated unexpectedly\")??\n")])
var("conf-stop-flag-after-send", "a shared stop flag ends the losers' loops; it is set by main after it has received the first result, and losers leave without sending",
    [("src/cmd/new.rs", "    let mnemonic = if let Some(prefix) = options.vanity_prefix {\n        let vanity = {\n            let prefix = prefix.clone();\n",
      "    let stop = std::sync::Arc::new(std::sync::atomic::AtomicBool::new(false));\n    let mnemonic = if let Some(prefix) = options.vanity_prefix {\n        let vanity = {\n            let prefix = prefix.clone();\n            let stop = stop.clone();\n"),
     ("src/cmd/new.rs", "            move || -> Result<Mnemonic> {\n                while !prefix.matches(account.private_key()?.address()) {\n                    account.mnemonic = random_mnemonic()?;\n                }\n                Ok(account.mnemonic)\n            }",
      "            move || -> Result<Option<Mnemonic>> {\n                while !prefix.matches(account.private_key()?.address()) {\n                    if stop.load(std::sync::atomic::Ordering::Acquire) {\n                        return Ok(None);\n                    }\n                    account.mnemonic = random_mnemonic()?;\n                }\n                Ok(Some(account.mnemonic))\n            }"),
     ("src/cmd/new.rs", "                        move || {\n                            let _ = result.send(vanity());\n                        }",
      "                        move || {\n                            if let Some(found) = vanity().transpose() {\n                                let _ = result.send(found);\n                            }\n                        }"),
     ("src/cmd/new.rs", "            receiver.recv().unwrap()?\n        } else {\n            vanity()?\n        }",
      "            let first = receiver.recv().unwrap();\n            stop.store(true, std::sync::atomic::Ordering::Release);\n            first?\n        } else {\n            vanity()?.expect(\"the search is never stopped without threads\")\n        }")])
var("conf-condvar-slot", "the channel is replaced by a Mutex<Option<Result>> slot and a Condvar; main uses wait_while, so a notification before the wait is not lost; first result wins",
    [("src/cmd/new.rs", SPAWN_OLD,
      "            let slot = std::sync::Arc::new((std::sync::Mutex::new(None), std::sync::Condvar::new()));\n            let _threads = (0..options.vanity_threads)\n                .map(|_| {\n                    thread::spawn({\n                        let vanity = vanity.clone();\n                        let slot = slot.clone();\n                        move || {\n                            let result = vanity();\n                            let mut first = slot.0.lock().unwrap();\n                            if first.is_none() {\n                                *first = Some(result);\n                                slot.1.notify_one();\n                            }\n                        }\n                    })\n                })\n                .collect::<Vec<_>>();\n\n            let guard = slot.0.lock().unwrap();\n            let mut guard = slot.1.wait_while(guard, |first| first.is_none()).unwrap();\n            guard.take().unwrap()?\n"),
     ("src/cmd/new.rs", "    sync::mpsc,\n    thread,\n};", "    thread,\n};")])
var("conf-polling-main", "main polls the channel with recv_timeout and gives up with an error when every worker has finished without a result",
    [("src/cmd/new.rs", "            let _threads = (0..options.vanity_threads)", "            let threads = (0..options.vanity_threads)"),
     ("src/cmd/new.rs", "            receiver.recv().unwrap()?\n",
      "            loop {\n                match receiver.recv_timeout(std::time::Duration::from_millis(20)) {\n                    Ok(result) => break result?,\n                    Err(mpsc::RecvTimeoutError::Timeout) if threads.iter().all(|t| t.is_finished()) => {\n                        match receiver.try_recv() {\n                            Ok(result) => break result?,\n                            Err(_) => anyhow::bail!(\"vanity search threads terminated unexpectedly\"),\n                        }\n                    }\n                    Err(mpsc::RecvTimeoutError::Timeout) => continue,\n                    Err(mpsc::RecvTimeoutError::Disconnected) => anyhow::bail!(\"vanity search threads terminated unexpectedly\"),\n                }\n            }\n")])
var("conf-batched-candidates", "main draws candidates 16 at a time and hands them to the workers through a shared queue; workers send back the matching mnemonic itself",
    [("src/cmd/new.rs", SPAWN_OLD,
      "            let queue = std::sync::Arc::new(std::sync::Mutex::new(std::collections::VecDeque::<Mnemonic>::new()));\n            let (sender, receiver) = mpsc::channel::<Result<Mnemonic>>();\n            let _threads = (0..options.vanity_threads)\n                .map(|_| {\n                    thread::spawn({\n                        let queue = queue.clone();\n                        let result = sender.clone();\n                        let prefix = prefix.clone();\n                        let mut account = account_template.clone();\n                        move || loop {\n                            let next = queue.lock().unwrap().pop_front();\n                            let Some(candidate) = next else {\n                                thread::yield_now();\n                                continue;\n                            };\n                            account.mnemonic = candidate;\n                            match account.private_key() {\n                                Ok(key) if !prefix.matches(key.address()) => {}\n                                Ok(_) => {\n                                    let _ = result.send(Ok(account.mnemonic.clone()));\n                                    break;\n                                }\n                                Err(err) => {\n                                    let _ = result.send(Err(err));\n                                    break;\n                                }\n                            }\n                        }\n                    })\n                })\n                .collect::<Vec<_>>();\n\n            queue.lock().unwrap().push_back(account_template.mnemonic.clone());\n            loop {\n                if queue.lock().unwrap().len() < 4 {\n                    for _ in 0..16 {\n                        let candidate = random_mnemonic()?;\n                        queue.lock().unwrap().push_back(candidate);\n                    }\n                }\n                match receiver.recv_timeout(std::time::Duration::from_millis(1)) {\n                    Ok(result) => break result?,\n                    Err(_) => continue,\n                }\n            }\n"),
     ("src/cmd/new.rs", "            let mut account = AccountOptions {\n                mnemonic: random_mnemonic()?,\n                password: options.vanity_password,\n                account_index: options.vanity_account_index,\n                hd_path: options.vanity_hd_path,\n            };\n",
      "            let mut account = AccountOptions {\n                mnemonic: random_mnemonic()?,\n                password: options.vanity_password,\n                account_index: options.vanity_account_index,\n                hd_path: options.vanity_hd_path,\n            };\n            account_template = account.clone();\n"),
     ("src/cmd/new.rs", "    let mnemonic = if let Some(prefix) = options.vanity_prefix {\n        let vanity = {", "    let mnemonic = if let Some(prefix) = options.vanity_prefix {\n        let account_template;\n        let vanity = {")])
var("conf-manual-read-loop", "read_input reads stdin with its own loop: retries EINTR, continues after short reads, stops at 0",
    [("src/cmd.rs", "            let mut buf = Vec::new();\n            io::stdin().read_to_end(&mut buf)?;\n            buf",
      "            let mut buf = Vec::new();\n            let mut chunk = [0u8; 1024];\n            let mut stdin = io::stdin().lock();\n            loop {\n                match stdin.read(&mut chunk) {\n                    Ok(0) => break,\n                    Ok(n) => buf.extend_from_slice(&chunk[..n]),\n                    Err(err) if err.kind() == io::ErrorKind::Interrupted => continue,\n                    Err(err) => return Err(err.into()),\n                }\n            }\n            buf")])
var("conf-exit-code-1", "errors exit with status 1 instead of 255",
    [("src/main.rs", "        process::exit(-1);", "        process::exit(1);")])
var("conf-hex-bufwriter-flushed", "hex encode/decode write through an explicit BufWriter and flush it, propagating errors",
    [("src/cmd/hex.rs", "            println!(\"0x{}\", hex::encode(data));", "            let mut out = io::BufWriter::new(io::stdout().lock());\n            writeln!(out, \"0x{}\", hex::encode(data))?;\n            out.flush()?;"),
     ("src/cmd/hex.rs", "            io::stdout().write_all(&bytes)?;", "            let mut out = io::BufWriter::with_capacity(512, io::stdout().lock());\n            out.write_all(&bytes)?;\n            out.flush()?;")])
var("conf-workers-own-first-candidate", "every searcher starts from its own random phrase instead of a copy of main's",
    [("src/cmd/new.rs", "                        let vanity = vanity.clone();\n                        let result = sender.clone();\n                        move || {\n                            let _ = result.send(vanity());\n                        }",
      "                        let vanity = vanity.clone();\n                        let result = sender.clone();\n                        move || {\n                            let _ = result.send(vanity());\n                        }")])

def main():
    out_dir = os.path.dirname(os.path.abspath(__file__))
    scratch = tempfile.mkdtemp(prefix="confgen-", dir="/tmp")
    try:
        subprocess.check_call(["git", "-C", "/repo", "worktree", "add", "--detach", "-q", scratch + "/wt", "HEAD"])
        wt = scratch + "/wt"
        index = []
        for m in V:
            changed = False
            for (f, old, new) in m["edits"]:
                p = os.path.join(wt, f)
                s = open(p).read()
                if s.count(old) != 1:
                    print(f"variant {m['name']}: anchor not unique/found in {f} ({s.count(old)})"); sys.exit(1)
                if old != new:
                    changed = True
                open(p, "w").write(s.replace(old, new))
            if not changed:
                subprocess.check_call(["git", "-C", wt, "checkout", "-q", "--", "."]); continue
            r = subprocess.run("cargo build --offline 2>&1 | tail -15", shell=True, cwd=wt, capture_output=True, text=True)
            if "Finished" not in r.stdout:
                print(f"variant {m['name']} does not build:\n{r.stdout}"); sys.exit(1)
            diff = subprocess.run(["git", "-C", wt, "diff"], capture_output=True, text=True).stdout
            open(os.path.join(out_dir, m["name"] + ".patch"), "w").write(diff)
            subprocess.check_call(["git", "-C", wt, "checkout", "-q", "--", "."])
            index.append(dict(name=m["name"], patch=m["name"] + ".patch", description=m["desc"]))
        # keep the independently written variants (conf-ind-*), which are not generated here
        try:
            prev = json.load(open(os.path.join(out_dir, "index.json")))
            index += [e for e in prev if e["name"].startswith("conf-ind-")]
        except Exception:
            pass
        json.dump(index, open(os.path.join(out_dir, "index.json"), "w"), indent=1)
        print("wrote", len(index), "conforming variants")
    finally:
        subprocess.call(["git", "-C", "/repo", "worktree", "remove", "--force", scratch + "/wt"])
        shutil.rmtree(scratch, ignore_errors=True)

if __name__ == "__main__":
    main()
