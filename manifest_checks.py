ENGINES = [
 {"name": "procsim (E1)", "path": "/verif/shim/simos_preload.c + /verif/sim/src/exec.rs",
  "serves_properties": ["C12", "C16", "C17", "C18", "C19"],
  "kind_free_text": "the real hdwallet binary, one OS process per simulated command, against a simulated libc boundary (LD_PRELOAD): getentropy/getrandom, read/readv on fd 0 (and on any descriptor naming fd 0's pipe, e.g. /dev/stdin opened as a file), read(input files), write/writev on fd 1 execute an explicit seeded plan; no source hook"},
 {"name": "procsim-mt (E3)", "path": "/verif/shim/simos_preload.c (second half) + /verif/sim/src/exec.rs",
  "serves_properties": ["C12", "C17", "C18"],
  "kind_free_text": "the real hdwallet binary with its real std threads under a scheduler inside the LD_PRELOAD shim: one token holder runs at a time, the token moves at pthread_create/join, futex wait/wake (implemented in the shim), sched_yield, sleeps, getentropy; seeded (random walk, sticky, PCT-like priorities with change points, long preemptions) or traced choices, simulated monotonic clock, deadlock detection; no source hook. Used for one in five/six threaded scenarios and as the fallback when threads are created outside the E2 seam"},
 {"name": "threadsim (E2)", "path": "/verif/sim/src/bin/threadsim",
  "serves_properties": ["C12", "C17", "C18"],
  "kind_free_text": "cmd::new::run compiled from /repo's working tree under shuttle with our own seeded recording scheduler; getentropy replaced at link time by the simulated entropy device (a scheduling point); one OS process per simulated process, which really exits when the command's main task returns"},
]

NOTES = ("Technique family: deterministic simulation with fault injection. One integer (VERIF_SEED, default 1) decides every generated "
         "scenario, entropy response, stream-delivery plan, fault and scheduling decision. Exit 2 = harness error (nothing claimed). "
         "15 of 20 properties are pure functions of their input and are listed under not_applicable (DESIGN.md §0, §6).")

# (id, level category, level text, design ref, level note, technique, engine)
CHECKS = [
 ("C16", "exploration",
  "Seeded exploration on the real binary: every account command is run as a session of 2..8 simulated processes — a base execution (flags, input file) and "
  "variants with the options through MNEMONIC/PASSWORD/ACCOUNT_INDEX/HD_PATH (all or a seeded mix), input from stdin in one piece, from stdin or the file under a "
  "benign delivery plan (chunks down to 1 byte, EINTR), under one hard EIO, and stdout under short writes/EINTR. Required: all benign variants byte-identical to "
  "the base; a hard read error => failure with empty stdout; both selectors in any flag/env mix => usage error. The base output is compared with an independent "
  "reference wallet (EIP-55 address, 0x secret, uncompressed public key; signatures must recover to the reference address over the digest the real matching `hash` "
  "command prints; `hash data` = Keccak-256; digest = keccak(0x1901||domainSeparator||--message-hash output)). Sampling, not proof.",
  "DESIGN.md §5.4",
  "Decided by simulation: channel/delivery/environment independence and no output after a read error. Sampled by the workload (input generation, not simulation): "
  "the reference-wallet comparison over mnemonics, passphrases, indices 0..2^31-1 and paths. Transaction/typed-data inputs are well-formed documents only (C06/C08 "
  "not claimed); signature determinism is C05. Trusted: RustCrypto primitives in the reference wallet, unicode-normalization for NFKD, the library's domain_separator.",
  "deterministic simulation: seeded fault-injecting stream delivery and environment/argv configuration of real processes, session-history oracle against a reference wallet",
  "procsim (E1)"),
 ("C12", "exploration",
  "Fault enumeration on the real binary plus seeded exploration under the simulated scheduler. Enumerated every run (E1): `new -n L` for all L in 0..=40 x 19 "
  "entropy-source responses (degenerate byte patterns, random values, EIO, ENOSYS, EIO after scribbling the buffer), and single-searcher vanity searches "
  "(-j 0, -j 1) for the five lengths x plant position 0..=6 x a failure injected at each request of the search. Explored (E2): vanity searches with 2..64 "
  "workers under seeded random/sticky/PCT-like schedules with a failure at a seeded request. Oracle over the recorded history: the printed phrase is a valid "
  "L-word BIP-39 phrase whose entropy is exactly one of the byte strings the source delivered to this process in a request of exactly ENT bytes; unsupported "
  "lengths refused; a failure before any qualifying value means error exit and empty stdout (multi-worker: success only with delivered qualifying entropy, error "
  "only if a failure was delivered; a failure delivered to a task that finished before the printed value existed must make the command fail; no task may request again after its request failed); every printed phrase is accepted by the real `address --mnemonic`. 70 enumerated twin generations (5 lengths x 14 remarkable first values - byte patterns, zero first byte, repeated words, extreme Hamming weight - against an unremarkable one, 20 distinct values behind both): whether the command succeeds and where in the delivered byte stream the printed entropy lies must not depend on the values delivered (a conditional redraw makes some phrases impossible). A library scenario (2..4 real threads calling Mnemonic::random concurrently under the shim's scheduler, E3) requires every phrase to carry bytes delivered to that thread's own requests. One threaded scenario in six runs on the real binary under E3. Sampling, not proof.",
  "DESIGN.md §5.1",
  "Trusted: RustCrypto primitives and the canonical English list copy used by the reference BIP-39; the kernel/loader; shuttle's thread/channel models. "
  "E1 never decides a run with more than one searching thread; E2 stubs src/main.rs and is cross-validated against E1 on single-searcher runs. "
  "Provenance = the printed entropy occurs at a byte boundary inside one successful delivery (the device is a byte stream, so read-ahead/pool implementations are served and accepted); a request smaller than ENT is a violation. E2 verdicts of kind panic/hang are confirmed on the real binary under E3 before they are believed (DESIGN.md §12.4).",
  "deterministic simulation: enumerated + seeded fault injection at the getentropy boundary (LD_PRELOAD / link-time device), seeded scheduler for the threaded search, history oracle against a reference BIP-39",
  "procsim (E1) + threadsim (E2)"),
 ("C18", "exploration",
  "Seeded exploration over schedules x entropy plans x configurations of the vanity search under our own seeded recording scheduler (E2): all 16 one-digit "
  "prefixes in both cases x thread counts 0,1,2,16 enumerated every run, then seeded scenarios (prefix of 0..40 digits derived from the reference address of a "
  "planted entropy value, per-letter case flips, passphrases, account index or explicit path, 0..64 workers, plant position 0..12, random/sticky/PCT-like "
  "and stall-at-publish policies; one search in sixty is deep: plant at draw 50..70 with a non-matching aftermath). Enumerated besides: for every prefix length 1..40 an exact match, a candidate with only the last digit wrong and one with a seeded digit wrong (the near miss is delivered first, then the source fails for good: the search must end in an error and never print it); matches planted at draws 63..65, 127..129, 255..257 with 3/5/6/7 workers and 300 non-matching values behind them. Oracle: exit 0 => one line, a reference-valid phrase of the requested length whose reference-derived address for the selected account starts "
  "with the requested digits and whose entropy was really delivered; valid arguments and no injected failure => exit 0; non-hex prefix refused; bounded "
  "liveness after the device turns generous (384+32*workers further requests); no deadlock; a non-hex prefix is refused (printing a phrase or starting a search both count as acceptance). One threaded scenario in six runs on the real binary under the shim's scheduler (E3). Failures are replayed from an explicit minimised choice trace. Sampling, not proof.",
  "DESIGN.md §5.2",
  "Decided by simulation: independence of the result from which worker finishes first and from the interleaving of entropy delivery and channel operations. "
  "The prefix parsing/comparison clauses for a fixed schedule are input properties sampled by the same workload. Trusted: reference wallet (RustCrypto), shuttle models; "
  "std OnceLock is real and uncontrolled (no scheduling point inside). E2 stubs src/main.rs; single-searcher runs are re-run on the real binary and must agree.",
  "deterministic simulation: seeded schedule search (own shuttle Scheduler: random walk, sticky, PCT-like) with planted entropy, reference-wallet oracle, bounded-liveness check",
  "threadsim (E2) + procsim (E1) cross-validation"),
 ("C17", "exploration",
  "Two halves. (i) Decided by schedule/fault search (E2): `new` with 0..64 workers x argument tuples that make key derivation fail or die inside a worker, "
  "entropy failures at every early position, all scheduler policies; invariant: no task panics, no deadlock before exit (a dead worker is modelled as thread "
  "death, so 'all workers died' shows up as the main thread blocked for ever), exit within 384+32*workers further entropy requests once the device is generous; every such verdict of E2 is confirmed on the real binary under E3 before it is reported. 56 enumerated legacy transactions sit at the EIP-155 v-overflow limit +-3; 2112 enumerated typed-data documents carry one intN/uintN member (N = 8..256) at every boundary of its range, as number, decimal and hex string. "
  "(ii) Sampled by the workload (E1, real binary): boundary-biased and mutated-valid inputs for every user-reachable parser; invariant: exit status is not 101 (panic), "
  "no signal, termination within a budget of 10 s of the simulated process's own CPU time, or no runnable thread and no progress at all (a timeout is re-run alone before it is believed). Half (ii) is input generation run by the simulator, not a decision by simulation. Sampling, not proof.",
  "DESIGN.md §5.3",
  "Checked-optimised build (overflow-checks, debug-assertions) so overflow is a panic. Worker counts bounded to 0..=64, prefixes to what the planted/generous device can "
  "satisfy. A parser panic the generator does not draw is not found; per-family counts are in the evidence. Library-level entry points not reachable from the CLI "
  "(e.g. Path::for_index(usize >= 2^32), LegacyTransaction built in code with a huge chain id) are outside what this check observes.",
  "deterministic simulation: seeded schedule/fault search for hang+panic of the threaded search (shuttle, own scheduler); seeded boundary workload on the real binary for parser crashes",
  "threadsim (E2) + procsim (E1)"),
 ("C19", "exploration",
  "Seeded exploration of the two-process `hex encode | hex decode` pipeline on the real binary under simulated stream delivery: "
  "per stage a read plan (chunking down to 1 byte, EINTR incl. on the read that observes EOF, one hard EIO) on stdin or on the input file, "
  "and a write plan (short writes, EINTR; write and writev) on stdout; oracle: byte-exact round trip under benign plans, failure with zero output bytes under a hard error. "
  "Lengths 0..=64 and all 256 byte values are enumerated in every batch. Sampling, not proof.",
  "DESIGN.md §5.5",
  "Decided by simulation: independence of the result from stream delivery, and no partial output on failure. Only sampled by the workload "
  "(input generation, not simulation): the layout/case/prefix leniency and malformed-input clauses. Trusted: the `hex` crate's encoding as "
  "reference, kernel, loader; hard write errors are not injected.",
  "deterministic simulation: seeded fault-injecting stream delivery (LD_PRELOAD SimOS) around the real binary, pipeline history oracle",
  "procsim (E1)"),
]

PENDING = {}
