ENGINES = [
 {"name": "procsim (E1)", "path": "/verif/shim/simos_preload.c + /verif/sim/src/exec.rs",
  "serves_properties": ["C12", "C16", "C17", "C19"],
  "kind_free_text": "the real hdwallet binary, one OS process per simulated command, against a simulated libc boundary (LD_PRELOAD): getentropy, read(0), read(input files), write(1) execute an explicit seeded plan; no source hook"},
 {"name": "threadsim (E2)", "path": "/verif/sim/src/bin/threadsim",
  "serves_properties": ["C12", "C17", "C18"],
  "kind_free_text": "cmd::new::run compiled from /repo's working tree under shuttle with our own seeded recording scheduler; getentropy replaced at link time by the simulated entropy device (a scheduling point); one OS process per simulated process, which really exits when the command's main task returns"},
]

NOTES = ("Technique family: deterministic simulation with fault injection. One integer (VERIF_SEED, default 1) decides every generated "
         "scenario, entropy response, stream-delivery plan, fault and scheduling decision. Exit 2 = harness error (nothing claimed). "
         "15 of 20 properties are pure functions of their input and are listed under not_applicable (DESIGN.md §0, §6).")

# (id, level category, level text, design ref, level note, technique, engine)
CHECKS = [
 ("C19", "exploration",
  "Seeded exploration of the two-process `hex encode | hex decode` pipeline on the real binary under simulated stream delivery: "
  "per stage a read plan (chunking down to 1 byte, EINTR incl. on the read that observes EOF, one hard EIO) on stdin or on the input file, "
  "and a write plan (short writes, EINTR) on stdout; oracle: byte-exact round trip under benign plans, failure with zero output bytes under a hard error. "
  "Lengths 0..=64 and all 256 byte values are enumerated in every batch. Sampling, not proof.",
  "DESIGN.md §5.5",
  "Decided by simulation: independence of the result from stream delivery, and no partial output on failure. Only sampled by the workload "
  "(input generation, not simulation): the layout/case/prefix leniency and malformed-input clauses. Trusted: the `hex` crate's encoding as "
  "reference, kernel, loader; hard write errors are not injected.",
  "deterministic simulation: seeded fault-injecting stream delivery (LD_PRELOAD SimOS) around the real binary, pipeline history oracle",
  "procsim (E1)"),
]

PENDING = {
 "C12": "claimed in DESIGN.md §5.1; check under construction in this round (will move to checks)",
 "C16": "claimed in DESIGN.md §5.4; check under construction in this round (will move to checks)",
 "C17": "claimed in DESIGN.md §5.3; check under construction in this round (will move to checks)",
 "C18": "claimed in DESIGN.md §5.2; check under construction in this round (will move to checks)",
}
