#!/usr/bin/env python3
"""Merge the per-check lines of a `bin/selftest specificity --only ...` run (which does not rewrite
selftest/specificity.json) into that file: usage merge_specificity_log.py <log> <verif-commit>."""
import json, re, sys
log, commit = sys.argv[1], sys.argv[2]
spec = json.load(open("/verif/selftest/specificity.json"))
idx = {v["name"]: v for v in spec["variants"]}
desc = {v["name"]: v["description"] for v in json.load(open("/verif/conforming/index.json"))}
n = 0
for line in open(log):
    m = re.match(r"(conf-\S+)\s+(C\d\d): exit (\d+) (ok|FALSE ALARM|HARNESS ERROR)\s*(.*)", line)
    if not m: continue
    name, prop, code, _, first = m.groups()
    v = idx.get(name)
    if v is None:
        v = dict(name=name, description=desc.get(name, ""), checks={})
        spec["variants"].append(v); idx[name] = v
    v["checks"][prop] = dict(exit=int(code), first=first[:300], from_run_at_verif_commit=commit)
    n += 1
spec["alarms"] = sum(1 for v in spec["variants"] for c in v["checks"].values() if c["exit"] != 0)
json.dump(spec, open("/verif/selftest/specificity.json", "w"), indent=1)
print("merged", n, "check results; variants", len(spec["variants"]), "alarms", spec["alarms"])
