#!/usr/bin/env python3
"""Rewrites the tables of DESIGN.md §13 between the BEGIN/END markers from the last self-test results
(/verif/selftest/*.json) and the seeded metadata (/verif/seeded/*/meta.json)."""
import json, os, re

ROOT = "/verif"
def load(p, d=None):
    try: return json.load(open(p))
    except Exception: return d

sens = load(f"{ROOT}/selftest/sensitivity.json", {"mutants": []})
spec = load(f"{ROOT}/selftest/specificity.json", {"variants": []})
det = load(f"{ROOT}/selftest/determinism.json", {})

def first(c):
    f = c.get("first", "")
    m = re.search(r"clause=(\S+)", f)
    return m.group(1) if m else ("harness error" if c.get("exit") == 2 else "-")

lines = []
lines.append("| change | what it does | checks that report it (quick, clause of the first violation) |")
lines.append("|---|---|---|")
own = [m for m in sens["mutants"] if not m["name"].startswith("seeded/")]
for m in own:
    if m.get("status") == "stale":
        lines.append(f"| `{m['name']}` | (stale patch) | - |"); continue
    det_s = ", ".join(f"{p} ({first(c)})" if c["exit"] == 1 else f"{p} **exit {c['exit']}**" for p, c in m["checks"].items())
    lines.append(f"| `{m['name']}` | {m.get('description','')} | {det_s} |")
own_table = "\n".join(lines)

lines = []
lines.append("| id | breaks | what it needs in order to manifest | confirmed (tests / demo on HEAD / demo with change) | reported by (quick) |")
lines.append("|---|---|---|---|---|")
sd = f"{ROOT}/seeded"
sens_seeded = {m["name"]: m for m in sens["mutants"] if m["name"].startswith("seeded/")}
for d in sorted(os.listdir(sd)) if os.path.isdir(sd) else []:
    meta = load(f"{sd}/{d}/meta.json")
    if not meta: continue
    c = meta.get("confirmed", {})
    conf = f"{c.get('baseline_tests_pass_fail','?')} / exit {c.get('demo_exit_on_pristine','?')} / exit {c.get('demo_exit_with_change','?')}"
    last = sens_seeded.get(f"seeded/{d}")
    if last and last.get("checks"):
        rep = ", ".join(f"{p} ({first(cc)})" for p, cc in last["checks"].items() if cc["exit"] == 1) or "-"
    else:
        rep = ", ".join(f"{p} ({first(cc)})" for p, cc in meta.get("checks_quick", {}).items() if cc["exit"] == 1) or "**not reported**"
    if not meta.get("expected_detected", True):
        rep = "**not reported** — " + meta.get("not_detected_because", "")[:400]
    lines.append(f"| `{d}` | {meta.get('breaks_property','?')} | {meta.get('needs','')} | {conf} | {rep} |")
seeded_table = "\n".join(lines)

lines = ["| refactoring (keeps every property) | C12 | C16 | C17 | C18 | C19 |", "|---|---|---|---|---|---|"]
for v in spec["variants"]:
    cells = " | ".join(("ok" if v["checks"].get(p, {}).get("exit") == 0 else f"**exit {v['checks'].get(p, {}).get('exit')}**") for p in ["C12", "C16", "C17", "C18", "C19"])
    lines.append(f"| `{v['name']}` — {v.get('description','')} | {cells} |")
spec_table = "\n".join(lines)

summary = (f"Last self-test results in `/verif/selftest/`: sensitivity {len(sens['mutants'])} changes, {sens.get('missed','?')} missed check(s), "
           f"{sens.get('pristine_failures','?')} pristine failures; specificity {len(spec['variants'])} refactorings, {spec.get('alarms','?')} alarm(s); "
           f"determinism: " + ", ".join(f"{p} {v['cases']}x{v['executions_per_case']} {'identical' if v['identical'] else 'DIFFERENT'}" for p, v in det.items()) + ".")

doc = open(f"{ROOT}/DESIGN.md").read()
def put(tag, body):
    global doc
    b, e = f"<!-- BEGIN:{tag} -->", f"<!-- END:{tag} -->"
    i, j = doc.index(b) + len(b), doc.index(e)
    doc = doc[:i] + "\n" + body + "\n" + doc[j:]
put("SUMMARY", summary)
put("OWN", own_table)
put("SEEDED", seeded_table)
put("SPEC", spec_table)
open(f"{ROOT}/DESIGN.md", "w").write(doc)
print("DESIGN.md tables rewritten")
