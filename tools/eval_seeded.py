#!/usr/bin/env python3
"""Confirm independently written changes (sub-agent worktrees under /tmp/wt-*/_seeded/k) and run the checks on them.
Phase 1 (parallel, in the agents' worktrees): patch applies, builds, 33 tests pass, demo passes on HEAD and fails with the patch.
Phase 2 (sequential, on /repo): apply, run checks, revert. Results -> /verif/seeded/<id>/meta.json
usage: eval_seeded.py phase1|phase2 [ids...]"""
import json, os, subprocess, sys, shutil, concurrent.futures, time
REPO = os.environ.get("VERIF_REPO", "/repo")
ROOT = os.environ.get("VERIF_ROOT", "/verif")

def sh(cmd, cwd=None, timeout=3600):
    try:
        r = subprocess.run(cmd, shell=True, cwd=cwd, capture_output=True, text=True, timeout=timeout)
        return r.returncode, (r.stdout + r.stderr)
    except subprocess.TimeoutExpired:
        return 124, "TIMEOUT"

def items():
    out = []
    props = {"c12": "C12", "c16": "C16", "c17": "C17", "c18": "C18", "c19": "C19", "r2a": "C18", "r2b": "C17", "r2c": "C12", "r2d": "C16",
             "r3a": "C18", "r3b": "C17", "r3c": "C12", "r3d": "C16", "r3e": "C19", "r4a": "C18", "r4b": "C17", "r4c": "C12", "r5d": "C16", "r5e": "C19",
             "r6a": "C18", "r6b": "C17", "r6c": "C12", "r6d": "C16", "r6e": "C19",
             "r7a": "C18", "r7b": "C17", "r7c": "C12", "r7d": "C16", "r7e": "C19"}
    for p, prop in props.items():
        wt = f"/tmp/wt-{p}"
        for k in sorted(os.listdir(f"{wt}/_seeded")) if os.path.isdir(f"{wt}/_seeded") else []:
            d = f"{wt}/_seeded/{k}"
            if os.path.exists(f"{d}/patch.diff"):
                out.append((f"{p}-{k}", prop, wt, d))
    return out

def phase1_one(item):
    sid, prop, wt, d = item
    res = dict(id=sid, property=prop)
    sh("git checkout -- src", cwd=wt)
    c, o = sh(f"git apply --check {d}/patch.diff", cwd=wt); res["applies"] = c == 0
    c, o = sh(f"bash {d}/demo.sh {wt}", cwd=d, timeout=1800); res["demo_pristine_exit"] = c; res["demo_pristine_tail"] = o[-300:]
    sh(f"git apply {d}/patch.diff", cwd=wt)
    c, o = sh("cargo build --offline 2>&1 | tail -3", cwd=wt); res["build_ok"] = "Finished" in o
    c, o = sh("cargo test --offline 2>&1 | grep -E '^test result' | awk '{p+=$4; f+=$6} END {print p, f}'", cwd=wt); res["tests_pass_fail"] = o.strip()
    c, o = sh(f"bash {d}/demo.sh {wt}", cwd=d, timeout=1800); res["demo_patched_exit"] = c; res["demo_patched_tail"] = o[-300:]
    sh("git checkout -- src", cwd=wt)
    return res

def phase1(sel):
    its = [i for i in items() if not sel or i[0] in sel]
    # one worker per worktree so runs in the same worktree stay sequential
    by_wt = {}
    for i in its: by_wt.setdefault(i[2], []).append(i)
    def run_wt(lst): return [phase1_one(i) for i in lst]
    results = []
    with concurrent.futures.ThreadPoolExecutor(max_workers=5) as ex:
        for rs in ex.map(run_wt, by_wt.values()):
            results.extend(rs)
    os.makedirs("/verif/work", exist_ok=True)
    prev = json.load(open("/tmp/seeded-phase1.json")) if os.path.exists("/tmp/seeded-phase1.json") else []
    ids = {r["id"] for r in results}
    json.dump([r for r in prev if r["id"] not in ids] + results, open("/tmp/seeded-phase1.json", "w"), indent=1)
    for r in results:
        print(r["id"], "applies", r["applies"], "build", r["build_ok"], "tests", r["tests_pass_fail"], "demo pristine", r["demo_pristine_exit"], "patched", r["demo_patched_exit"])

def phase2(sel):
    p1 = {r["id"]: r for r in json.load(open("/tmp/seeded-phase1.json"))}
    for sid, prop, wt, d in items():
        if sel and sid not in sel: continue
        r = p1.get(sid, {})
        dest = os.environ.get("EVAL_DEST", "/verif/seeded") + f"/{sid}"
        os.makedirs(dest, exist_ok=True)
        for f in os.listdir(d):
            if os.path.isfile(f"{d}/{f}"): shutil.copy(f"{d}/{f}", f"{dest}/{f}")
        assert sh(f"git -C {REPO} status --porcelain --untracked-files=no")[1].strip() == "", "/repo dirty"
        sh(f"git -C {REPO} apply {dest}/patch.diff")
        checks = {}
        try:
            for p in ([prop] if os.environ.get("EVAL_TARGET_ONLY") else ["C12", "C16", "C17", "C18", "C19"]):
                t0 = time.time()
                c, o = sh(f"{ROOT}/bin/check {p} quick")
                first = next((l for l in o.splitlines() if l.startswith("violation:")), "")
                herr = next((l for l in o.splitlines() if l.startswith("harness error")), "")
                checks[p] = dict(exit=c, first=first[:400], harness=herr[:300], wall_s=round(time.time() - t0, 1))
                print(sid, p, "exit", c, first[:150] or herr[:150], flush=True)
        finally:
            sh(f"git -C {REPO} checkout -- .")
            sh(f"git -C {REPO} clean -fdq src")
            sh(f"rm -rf {ROOT}/replays")
        detected = [p for p, v in checks.items() if v["exit"] == 1]
        prev = json.load(open(f"{dest}/meta.json")) if os.path.exists(f"{dest}/meta.json") else {}
        meta = dict(id=sid, breaks_property=prop, confirmed=dict(applies=r.get("applies"), builds=r.get("build_ok"), baseline_tests_pass_fail=r.get("tests_pass_fail"),
                    demo_exit_on_pristine=r.get("demo_pristine_exit"), demo_exit_with_change=r.get("demo_patched_exit")),
                    checks_quick=checks, detected_by=detected, expected_detected=bool(detected))
        if prev.get("checks_quick"):
            meta["checks_quick_first_run"] = prev.get("checks_quick_first_run", prev["checks_quick"])
            meta["first_run_detected_by"] = prev.get("first_run_detected_by", prev.get("detected_by"))
        for k in ("needs", "what_i_ran"):
            if k in prev: meta[k] = prev[k]
        meta["checks_quick_at_verif_commit"] = sh(f"git -C {ROOT} rev-parse --short HEAD")[1].strip()
        json.dump(meta, open(f"{dest}/meta.json", "w"), indent=1)

if __name__ == "__main__":
    (phase1 if sys.argv[1] == "phase1" else phase2)(sys.argv[2:])
