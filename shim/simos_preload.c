/*
 * simos_preload.c -- simulated libc boundary for the real hdwallet binary (engine E1).
 *
 * Loaded with LD_PRELOAD. Owns three system interfaces and executes an explicit
 * plan read from $SIMOS_PLAN; every decision is logged to $SIMOS_LOG. Nothing in
 * here is random and nothing reads a clock: the plan IS the schedule.
 *
 *   getentropy(buf,len)   k-th request gets the k-th "E" response, then the "T"
 *                         (tail, repeated for ever) response, else ENOSYS.
 *   read(0,..)            "R" steps: chunk n / eintr / err e; then pass-through.
 *   write(1,..)           "W" steps: chunk n / eintr; then pass-through.
 *   read(fd>2,..)         "F" steps (same kinds as R), applied to regular-file
 *                         reads of input files (fs::read), then pass-through.
 *
 * Plan grammar (one item per line):
 *   E ok <hex>            E fail <errno> [<hex partial scribble>]
 *   T ok <hex>            T fail <errno>
 *   R chunk <n> | R eintr | R err <errno>
 *   W chunk <n> | W eintr
 *   F chunk <n> | F eintr | F err <errno>
 *
 * Log grammar:
 *   E <seq> <tid> <len> ok <hex delivered> | E <seq> <tid> <len> fail <errno> [plan|toolong|exhausted]
 *   R <k> <count> <ret> <errno>     W <k> <count> <ret> <errno>     F <k> <fd> <count> <ret> <errno>
 */
#define _GNU_SOURCE
#include <errno.h>
#include <fcntl.h>
#include <stddef.h>
#include <stdint.h>
#include <stdlib.h>
#include <string.h>
#include <sys/syscall.h>
#include <sys/types.h>
#include <unistd.h>

#define MAX_STEPS 8192

enum kind { K_OK, K_FAIL, K_CHUNK, K_EINTR, K_ERR };

struct step {
    enum kind kind;
    long n;               /* chunk size or errno */
    unsigned char *bytes; /* entropy bytes / partial scribble */
    size_t blen;
};

static struct step e_plan[MAX_STEPS], r_plan[MAX_STEPS], w_plan[MAX_STEPS], f_plan[MAX_STEPS];
static size_t e_n, r_n, w_n, f_n;
static size_t e_i, r_i, w_i, f_i;
static struct step tail;
static int have_tail;
static int active;
static int log_fd = -1;
static volatile int lock_word;

static char fdir[512];
static size_t fdir_len;

static long tids[64];
static int ntids;

static void lock(void) { while (__sync_lock_test_and_set(&lock_word, 1)) syscall(SYS_sched_yield); }
static void unlock(void) { __sync_lock_release(&lock_word); }

static int small_tid(void) {
    long t = syscall(SYS_gettid);
    for (int i = 0; i < ntids; i++)
        if (tids[i] == t) return i;
    if (ntids < 64) { tids[ntids] = t; return ntids++; }
    return 63;
}

static int hexval(int c) {
    if (c >= '0' && c <= '9') return c - '0';
    if (c >= 'a' && c <= 'f') return c - 'a' + 10;
    if (c >= 'A' && c <= 'F') return c - 'A' + 10;
    return -1;
}

static char *fmt_long(char *p, long v) {
    char tmp[24];
    int n = 0;
    unsigned long u;
    if (v < 0) { *p++ = '-'; u = (unsigned long)(-v); } else u = (unsigned long)v;
    do { tmp[n++] = '0' + (u % 10); u /= 10; } while (u);
    while (n) *p++ = tmp[--n];
    return p;
}

static char *fmt_hex(char *p, const unsigned char *b, size_t n) {
    static const char d[] = "0123456789abcdef";
    for (size_t i = 0; i < n; i++) { *p++ = d[b[i] >> 4]; *p++ = d[b[i] & 15]; }
    return p;
}

static void log_line(const char *buf, size_t n) {
    if (log_fd >= 0) syscall(SYS_write, log_fd, buf, n);
}

static unsigned char *parse_hex(const char *s, size_t *out_len) {
    size_t n = 0;
    while (hexval(s[n]) >= 0) n++;
    unsigned char *b = malloc(n / 2 + 1);
    for (size_t i = 0; i + 1 < n; i += 2) b[i / 2] = (unsigned char)((hexval(s[i]) << 4) | hexval(s[i + 1]));
    *out_len = n / 2;
    return b;
}

static void parse_step(const char *s, struct step *st) {
    memset(st, 0, sizeof *st);
    if (!strncmp(s, "ok", 2)) {
        st->kind = K_OK;
        s += 2;
        while (*s == ' ') s++;
        st->bytes = parse_hex(s, &st->blen);
    } else if (!strncmp(s, "fail", 4)) {
        st->kind = K_FAIL;
        char *end;
        st->n = strtol(s + 4, &end, 10);
        while (*end == ' ') end++;
        st->bytes = parse_hex(end, &st->blen);
    } else if (!strncmp(s, "chunk", 5)) {
        st->kind = K_CHUNK;
        st->n = strtol(s + 5, NULL, 10);
        if (st->n < 1) st->n = 1;
    } else if (!strncmp(s, "eintr", 5)) {
        st->kind = K_EINTR;
    } else if (!strncmp(s, "err", 3)) {
        st->kind = K_ERR;
        st->n = strtol(s + 3, NULL, 10);
    }
}

__attribute__((constructor)) static void simos_init(void) {
    const char *plan = getenv("SIMOS_PLAN");
    const char *logp = getenv("SIMOS_LOG");
    if (!plan) return;
    const char *fd_dir = getenv("SIMOS_FDIR");
    if (fd_dir && strlen(fd_dir) < sizeof fdir) { strcpy(fdir, fd_dir); fdir_len = strlen(fdir); }
    int fd = (int)syscall(SYS_openat, AT_FDCWD, plan, O_RDONLY | O_CLOEXEC, 0);
    if (fd < 0) _exit(96);
    size_t cap = 1 << 16, len = 0;
    char *buf = malloc(cap);
    for (;;) {
        if (len + 4096 > cap) { cap *= 2; buf = realloc(buf, cap); }
        long r = syscall(SYS_read, fd, buf + len, cap - len - 1);
        if (r <= 0) break;
        len += (size_t)r;
    }
    buf[len] = 0;
    syscall(SYS_close, fd);
    char *line = buf;
    while (*line) {
        char *nl = strchr(line, '\n');
        if (nl) *nl = 0;
        if (line[0] && line[1] == ' ') {
            const char *rest = line + 2;
            switch (line[0]) {
            case 'E': if (e_n < MAX_STEPS) parse_step(rest, &e_plan[e_n++]); break;
            case 'T': parse_step(rest, &tail); have_tail = 1; break;
            case 'R': if (r_n < MAX_STEPS) parse_step(rest, &r_plan[r_n++]); break;
            case 'W': if (w_n < MAX_STEPS) parse_step(rest, &w_plan[w_n++]); break;
            case 'F': if (f_n < MAX_STEPS) parse_step(rest, &f_plan[f_n++]); break;
            default: break;
            }
        }
        if (!nl) break;
        line = nl + 1;
    }
    free(buf);
    if (logp) {
        int lf = (int)syscall(SYS_openat, AT_FDCWD, logp, O_WRONLY | O_CREAT | O_APPEND | O_CLOEXEC, 0644);
        if (lf >= 0) {
            log_fd = fcntl(lf, F_DUPFD_CLOEXEC, 200);
            syscall(SYS_close, lf);
        }
    }
    active = 1;
}

int getentropy(void *buffer, size_t len) {
    if (!active) {
        /* not simulated: behave like glibc */
        if (len > 256) { errno = EIO; return -1; }
        size_t got = 0;
        while (got < len) {
            long r = syscall(SYS_getrandom, (char *)buffer + got, len - got, 0);
            if (r < 0) { if (errno == EINTR) continue; return -1; }
            got += (size_t)r;
        }
        return 0;
    }
    char line[1200];
    char *p = line;
    lock();
    size_t seq = e_i++;
    int tid = small_tid();
    struct step *st = NULL;
    const char *why = "plan";
    if (len > 256) why = "toolong";
    else if (seq < e_n) st = &e_plan[seq];
    else if (have_tail) st = &tail;
    else why = "exhausted";
    *p++ = 'E'; *p++ = ' ';
    p = fmt_long(p, (long)seq); *p++ = ' ';
    p = fmt_long(p, tid); *p++ = ' ';
    p = fmt_long(p, (long)len); *p++ = ' ';
    int ret;
    int err = 0;
    if (st && st->kind == K_OK) {
        size_t n = len < st->blen ? len : st->blen;
        memcpy(buffer, st->bytes, n);
        if (len > n) memset((char *)buffer + n, 0xA5, len - n);
        memcpy(p, "ok ", 3); p += 3;
        p = fmt_hex(p, buffer, len);
        ret = 0;
    } else {
        if (st && st->kind == K_FAIL) {
            size_t n = len < st->blen ? len : st->blen;
            memcpy(buffer, st->bytes, n);
            err = (int)st->n;
        } else if (len > 256) err = EIO;
        else err = ENOSYS;
        memcpy(p, "fail ", 5); p += 5;
        p = fmt_long(p, err); *p++ = ' ';
        size_t wl = strlen(why); memcpy(p, why, wl); p += wl;
        ret = -1;
    }
    *p++ = '\n';
    log_line(line, (size_t)(p - line));
    unlock();
    if (ret < 0) errno = err;
    return ret;
}

static void log_io(char tag, size_t k, int fd, size_t count, long ret, int err) {
    char line[160];
    char *p = line;
    *p++ = tag; *p++ = ' ';
    p = fmt_long(p, (long)k); *p++ = ' ';
    if (tag == 'F') { p = fmt_long(p, fd); *p++ = ' '; }
    p = fmt_long(p, (long)count); *p++ = ' ';
    p = fmt_long(p, ret); *p++ = ' ';
    p = fmt_long(p, err); *p++ = '\n';
    log_line(line, (size_t)(p - line));
}

/* F steps apply only to files below $SIMOS_FDIR (the run's scratch directory), so reads of
 * /proc, cgroup files etc. made by the runtime are never disturbed. */
static int is_target_file(int fd) {
    if (fd <= 2 || !fdir_len) return 0;
    char link[64], path[600];
    char *p = link;
    memcpy(p, "/proc/self/fd/", 14); p += 14;
    p = fmt_long(p, fd); *p = 0;
    long n = syscall(SYS_readlinkat, AT_FDCWD, link, path, sizeof path - 1);
    if (n <= 0) return 0;
    path[n] = 0;
    return (size_t)n > fdir_len && !strncmp(path, fdir, fdir_len) && path[fdir_len] == '/';
}

ssize_t read(int fd, void *buf, size_t count) {
    if (active && fd == 0) {
        lock();
        size_t k = r_i;
        struct step *st = k < r_n ? &r_plan[k] : NULL;
        if (st) r_i++;
        unlock();
        if (st) {
            long ret; int err = 0;
            if (st->kind == K_CHUNK) {
                size_t n = count < (size_t)st->n ? count : (size_t)st->n;
                ret = syscall(SYS_read, fd, buf, n);
                if (ret < 0) err = errno;
            } else if (st->kind == K_EINTR) { ret = -1; err = EINTR; }
            else { ret = -1; err = (int)st->n; }
            log_io('R', k, fd, count, ret, err);
            if (ret < 0) errno = err;
            return ret;
        }
    } else if (active && f_i < f_n && is_target_file(fd)) {
        lock();
        size_t k = f_i;
        struct step *st = k < f_n ? &f_plan[k] : NULL;
        if (st) f_i++;
        unlock();
        if (st) {
            long ret; int err = 0;
            if (st->kind == K_CHUNK) {
                size_t n = count < (size_t)st->n ? count : (size_t)st->n;
                ret = syscall(SYS_read, fd, buf, n);
                if (ret < 0) err = errno;
            } else if (st->kind == K_EINTR) { ret = -1; err = EINTR; }
            else { ret = -1; err = (int)st->n; }
            log_io('F', k, fd, count, ret, err);
            if (ret < 0) errno = err;
            return ret;
        }
    }
    return syscall(SYS_read, fd, buf, count);
}

ssize_t write(int fd, const void *buf, size_t count) {
    if (active && fd == 1) {
        lock();
        size_t k = w_i;
        struct step *st = k < w_n ? &w_plan[k] : NULL;
        if (st) w_i++;
        unlock();
        if (st) {
            long ret; int err = 0;
            if (st->kind == K_CHUNK) {
                size_t n = count < (size_t)st->n ? count : (size_t)st->n;
                ret = syscall(SYS_write, fd, buf, n);
                if (ret < 0) err = errno;
            } else if (st->kind == K_EINTR) { ret = -1; err = EINTR; }
            else { ret = -1; err = (int)st->n; }
            log_io('W', k, fd, count, ret, err);
            if (ret < 0) errno = err;
            return ret;
        }
    }
    return syscall(SYS_write, fd, buf, count);
}
