/*
 * simos_preload.c -- simulated libc boundary for the real hdwallet binary (engine E1).
 *
 * Loaded with LD_PRELOAD. Owns three system interfaces and executes an explicit
 * plan read from $SIMOS_PLAN; every decision is logged to $SIMOS_LOG. Nothing in
 * here is random and nothing reads a clock: the plan IS the schedule.
 *
 *   getentropy(buf,len)   k-th request gets the k-th "E" response, then the "T"
 *                         (tail, repeated for ever) response, else ENOSYS.
 *   read(0,..)            "R" steps: chunk n / eintr / err e; then pass-through.
 *   write(1,..)           "W" steps: chunk n / eintr; then pass-through.
 *   read(fd>2,..)         "F" steps (same kinds as R), applied to regular-file
 *                         reads of input files (fs::read), then pass-through.
 *
 * Plan grammar (one item per line):
 *   E ok <hex>            E fail <errno> [<hex partial scribble>]
 *   T ok <hex>            T fail <errno>
 *   R chunk <n> | R eintr | R err <errno>
 *   W chunk <n> | W eintr
 *   F chunk <n> | F eintr | F err <errno>
 *
 * Log grammar:
 *   E <seq> <tid> <len> ok <hex delivered> | E <seq> <tid> <len> fail <errno> [plan|toolong|exhausted]
 *   R <k> <count> <ret> <errno>     W <k> <count> <ret> <errno>     F <k> <fd> <count> <ret> <errno>
 */
#define _GNU_SOURCE
#include <errno.h>
#include <fcntl.h>
#include <stddef.h>
#include <stdint.h>
#include <stdlib.h>
#include <string.h>
#include <sys/stat.h>
#include <sys/syscall.h>
#include <sys/uio.h>
#include <sys/types.h>
#include <unistd.h>

#define MAX_STEPS 8192

enum kind { K_OK, K_FAIL, K_CHUNK, K_EINTR, K_ERR };

struct step {
    enum kind kind;
    long n;               /* chunk size or errno */
    unsigned char *bytes; /* entropy bytes / partial scribble */
    size_t blen;
};

static struct step e_plan[MAX_STEPS], r_plan[MAX_STEPS], w_plan[MAX_STEPS], f_plan[MAX_STEPS];
static size_t e_n, r_n, w_n, f_n;
static size_t e_i, r_i, w_i, f_i;
static struct step tail;
static int have_tail;
static int active;
static int log_fd = -1;
static volatile int lock_word;

static char fdir[512];
static size_t fdir_len;

static long raw6(long n, long a, long b, long c, long d, long e, long f);
/* engine E3 (scheduler for real threads), defined at the end of this file */
static void e3_parse(const char *rest);
static void e3_main_init(void);
static void e3_entropy_point(void);
static void e3_tail_request(void);
static int e3_tid(void);
static void e3_trace_add(int id);
static int sched_on_flag(void);
static void e3_after_output(void);
static long e3_steps(void);

static long tids[64];
static int ntids;

static void lock(void) { while (__sync_lock_test_and_set(&lock_word, 1)) syscall(SYS_sched_yield); }
static void unlock(void) { __sync_lock_release(&lock_word); }

static int small_tid(void) {
    long t = syscall(SYS_gettid);
    for (int i = 0; i < ntids; i++)
        if (tids[i] == t) return i;
    if (ntids < 64) { tids[ntids] = t; return ntids++; }
    return 63;
}

static int hexval(int c) {
    if (c >= '0' && c <= '9') return c - '0';
    if (c >= 'a' && c <= 'f') return c - 'a' + 10;
    if (c >= 'A' && c <= 'F') return c - 'A' + 10;
    return -1;
}

static char *fmt_long(char *p, long v) {
    char tmp[24];
    int n = 0;
    unsigned long u;
    if (v < 0) { *p++ = '-'; u = (unsigned long)(-v); } else u = (unsigned long)v;
    do { tmp[n++] = '0' + (u % 10); u /= 10; } while (u);
    while (n) *p++ = tmp[--n];
    return p;
}

static char *fmt_hex(char *p, const unsigned char *b, size_t n) {
    static const char d[] = "0123456789abcdef";
    for (size_t i = 0; i < n; i++) { *p++ = d[b[i] >> 4]; *p++ = d[b[i] & 15]; }
    return p;
}

static void log_line(const char *buf, size_t n) {
    if (log_fd >= 0) syscall(SYS_write, log_fd, buf, n);
}

static unsigned char *parse_hex(const char *s, size_t *out_len) {
    size_t n = 0;
    while (hexval(s[n]) >= 0) n++;
    unsigned char *b = malloc(n / 2 + 1);
    for (size_t i = 0; i + 1 < n; i += 2) b[i / 2] = (unsigned char)((hexval(s[i]) << 4) | hexval(s[i + 1]));
    *out_len = n / 2;
    return b;
}

static void parse_step(const char *s, struct step *st) {
    memset(st, 0, sizeof *st);
    if (!strncmp(s, "ok", 2)) {
        st->kind = K_OK;
        s += 2;
        while (*s == ' ') s++;
        st->bytes = parse_hex(s, &st->blen);
    } else if (!strncmp(s, "fail", 4)) {
        st->kind = K_FAIL;
        char *end;
        st->n = strtol(s + 4, &end, 10);
        while (*end == ' ') end++;
        st->bytes = parse_hex(end, &st->blen);
    } else if (!strncmp(s, "chunk", 5)) {
        st->kind = K_CHUNK;
        st->n = strtol(s + 5, NULL, 10);
        if (st->n < 1) st->n = 1;
    } else if (!strncmp(s, "eintr", 5)) {
        st->kind = K_EINTR;
    } else if (!strncmp(s, "err", 3)) {
        st->kind = K_ERR;
        st->n = strtol(s + 3, NULL, 10);
    }
}

__attribute__((constructor)) static void simos_init(void) {
    const char *plan = getenv("SIMOS_PLAN");
    const char *logp = getenv("SIMOS_LOG");
    if (!plan) return;
    const char *fd_dir = getenv("SIMOS_FDIR");
    if (fd_dir && strlen(fd_dir) < sizeof fdir) { strcpy(fdir, fd_dir); fdir_len = strlen(fdir); }
    int fd = (int)syscall(SYS_openat, AT_FDCWD, plan, O_RDONLY | O_CLOEXEC, 0);
    if (fd < 0) _exit(96);
    size_t cap = 1 << 16, len = 0;
    char *buf = malloc(cap);
    for (;;) {
        if (len + 4096 > cap) { cap *= 2; buf = realloc(buf, cap); }
        long r = syscall(SYS_read, fd, buf + len, cap - len - 1);
        if (r <= 0) break;
        len += (size_t)r;
    }
    buf[len] = 0;
    syscall(SYS_close, fd);
    char *line = buf;
    while (*line) {
        char *nl = strchr(line, '\n');
        if (nl) *nl = 0;
        if (line[0] && line[1] == ' ') {
            const char *rest = line + 2;
            switch (line[0]) {
            case 'E': if (e_n < MAX_STEPS) parse_step(rest, &e_plan[e_n++]); break;
            case 'T': parse_step(rest, &tail); have_tail = 1; break;
            case 'R': if (r_n < MAX_STEPS) parse_step(rest, &r_plan[r_n++]); break;
            case 'W': if (w_n < MAX_STEPS) parse_step(rest, &w_plan[w_n++]); break;
            case 'F': if (f_n < MAX_STEPS) parse_step(rest, &f_plan[f_n++]); break;
            case 'S': e3_parse(rest); break;
            case 'C': e3_trace_add((int)strtol(rest, NULL, 10)); break;
            default: break;
            }
        }
        if (!nl) break;
        line = nl + 1;
    }
    free(buf);
    if (logp) {
        int lf = (int)syscall(SYS_openat, AT_FDCWD, logp, O_WRONLY | O_CREAT | O_APPEND | O_CLOEXEC, 0644);
        if (lf >= 0) {
            log_fd = fcntl(lf, F_DUPFD_CLOEXEC, 200);
            syscall(SYS_close, lf);
        }
    }
    active = 1;
    e3_main_init();
}

static int entropy_request(void *buffer, size_t len, int cap256);

int getentropy(void *buffer, size_t len) {
    if (!active) {
        /* not simulated: behave like glibc */
        if (len > 256) { errno = EIO; return -1; }
        size_t got = 0;
        while (got < len) {
            long r = syscall(SYS_getrandom, (char *)buffer + got, len - got, 0);
            if (r < 0) { if (errno == EINTR) continue; return -1; }
            got += (size_t)r;
        }
        return 0;
    }
    return entropy_request(buffer, len, 1);
}

/* getrandom(2) with flags that ask for blocking, secure bytes is the same source as getentropy(3)
 * (which glibc implements on top of it). Requests with GRND_NONBLOCK / GRND_INSECURE are the
 * runtime's own (std's HashMap keys) and are passed through untouched. */
#ifndef GRND_NONBLOCK
#define GRND_NONBLOCK 1
#endif
#ifndef GRND_INSECURE
#define GRND_INSECURE 4
#endif
ssize_t getrandom(void *buffer, size_t len, unsigned int flags) {
    if (!active || (flags & (GRND_NONBLOCK | GRND_INSECURE))) {
        long r = raw6(SYS_getrandom, (long)buffer, (long)len, (long)flags, 0, 0, 0);
        if (r < 0) { errno = (int)-r; return -1; }
        return r;
    }
    size_t n = len > 256 ? 256 : len; /* one call never serves more than 256 bytes here; callers loop */
    if (entropy_request(buffer, n, 0) < 0) return -1;
    return (ssize_t)n;
}

static int entropy_request(void *buffer, size_t len, int cap256) {
    char line[1200];
    char *p = line;
    static size_t e_req; /* request counter; e_i is the position in the plan */
    e3_entropy_point();
    lock();
    size_t seq = e_req++;
    int tid = e3_tid();
    if (tid < 0) tid = small_tid();
    *p++ = 'E'; *p++ = ' ';
    p = fmt_long(p, (long)seq); *p++ = ' ';
    p = fmt_long(p, tid); *p++ = ' ';
    p = fmt_long(p, (long)len); *p++ = ' ';
    /* The source is a byte stream: a request larger than one planned response continues with the
     * following ones (an implementation that reads ahead into a pool sees the same bytes in the same
     * order as one that asks for exactly one seed at a time); a smaller request gets a prefix and the
     * rest of that response is gone. A failure anywhere in the stretch fails the whole request. */
    const char *why = "plan";
    int ret = 0, err = 0, from_tail = 0;
    size_t filled = 0;
    if (cap256 && len > 256) { ret = -1; err = EIO; why = "toolong"; }
    while (ret == 0 && filled < len) {
        struct step *st = NULL;
        if (e_i < e_n) st = &e_plan[e_i++];
        else if (have_tail) { st = &tail; from_tail = 1; }
        if (!st) { ret = -1; err = ENOSYS; why = "exhausted"; break; }
        if (st->kind == K_OK && st->blen > 0) {
            size_t n = len - filled < st->blen ? len - filled : st->blen;
            memcpy((char *)buffer + filled, st->bytes, n);
            filled += n;
        } else if (st->kind == K_OK) {
            memset((char *)buffer + filled, 0xA5, len - filled);
            filled = len;
        } else {
            size_t n = len - filled < st->blen ? len - filled : st->blen;
            memcpy((char *)buffer + filled, st->bytes, n);
            ret = -1; err = (int)st->n;
        }
    }
    if (from_tail) e3_tail_request();
    if (ret == 0) {
        memcpy(p, "ok ", 3); p += 3;
        p = fmt_hex(p, buffer, len);
        *p++ = ' ';
        const char *src = from_tail ? "tail" : "plan";
        size_t wl = strlen(src); memcpy(p, src, wl); p += wl;
    } else {
        memcpy(p, "fail ", 5); p += 5;
        p = fmt_long(p, err); *p++ = ' ';
        size_t wl = strlen(why); memcpy(p, why, wl); p += wl;
    }
    if (sched_on_flag()) { *p++ = ' '; *p++ = '@'; p = fmt_long(p, e3_steps()); }
    *p++ = '\n';
    log_line(line, (size_t)(p - line));
    unlock();
    e3_entropy_point();
    if (ret < 0) errno = err;
    return ret;
}

static void log_io(char tag, size_t k, int fd, size_t count, long ret, int err) {
    char line[160];
    char *p = line;
    *p++ = tag; *p++ = ' ';
    p = fmt_long(p, (long)k); *p++ = ' ';
    if (tag == 'F') { p = fmt_long(p, fd); *p++ = ' '; }
    p = fmt_long(p, (long)count); *p++ = ' ';
    p = fmt_long(p, ret); *p++ = ' ';
    p = fmt_long(p, err); *p++ = '\n';
    log_line(line, (size_t)(p - line));
}

/* F steps apply only to files below $SIMOS_FDIR (the run's scratch directory), so reads of
 * /proc, cgroup files etc. made by the runtime are never disturbed. */
static int is_target_file(int fd) {
    if (fd <= 2 || !fdir_len) return 0;
    char link[64], path[600];
    char *p = link;
    memcpy(p, "/proc/self/fd/", 14); p += 14;
    p = fmt_long(p, fd); *p = 0;
    long n = syscall(SYS_readlinkat, AT_FDCWD, link, path, sizeof path - 1);
    if (n <= 0) return 0;
    path[n] = 0;
    return (size_t)n > fdir_len && !strncmp(path, fdir, fdir_len) && path[fdir_len] == '/';
}

/* A descriptor other than 0 that names the same pipe as fd 0 (the path /dev/stdin, /dev/fd/0 or
 * /proc/self/fd/0 opened as an input *file*): the R plan applies to it as it does to fd 0, so a
 * non-regular input file is delivered in pieces too. */
static int is_stdin_alias(int fd) {
    if (fd <= 2) return 0;
    struct stat a, b;
    if (fstat(0, &a) != 0 || !S_ISFIFO(a.st_mode)) return 0;
    if (fstat(fd, &b) != 0) return 0;
    return a.st_dev == b.st_dev && a.st_ino == b.st_ino;
}

/* which plan governs a read on fd: 'R' (stdin), 'F' (input file in the scratch directory), 0 */
static char read_plan_for(int fd) {
    if (!active) return 0;
    if (fd == 0) return 'R';
    if (r_i < r_n && is_stdin_alias(fd)) return 'R';
    if (f_i < f_n && is_target_file(fd)) return 'F';
    return 0;
}

static struct step *next_step(char tag, size_t *k_out) {
    struct step *st = NULL;
    lock();
    if (tag == 'R') { if (r_i < r_n) { *k_out = r_i; st = &r_plan[r_i++]; } }
    else if (tag == 'F') { if (f_i < f_n) { *k_out = f_i; st = &f_plan[f_i++]; } }
    else { if (w_i < w_n) { *k_out = w_i; st = &w_plan[w_i++]; } }
    unlock();
    return st;
}

ssize_t read(int fd, void *buf, size_t count) {
    char tag = read_plan_for(fd);
    size_t k = 0;
    struct step *st = tag ? next_step(tag, &k) : NULL;
    if (st) {
        long ret; int err = 0;
        if (st->kind == K_CHUNK) {
            size_t n = count < (size_t)st->n ? count : (size_t)st->n;
            ret = syscall(SYS_read, fd, buf, n);
            if (ret < 0) err = errno;
        } else if (st->kind == K_EINTR) { ret = -1; err = EINTR; }
        else { ret = -1; err = (int)st->n; }
        log_io(tag, k, fd, count, ret, err);
        if (ret < 0) errno = err;
        return ret;
    }
    return syscall(SYS_read, fd, buf, count);
}

/* vectored I/O obeys the same plans: a Chunk(n) step caps the total over all buffers */
static int cap_iov(const struct iovec *iov, int iovcnt, size_t cap, struct iovec *out, size_t *total) {
    int m = 0; size_t left = cap; *total = 0;
    for (int i = 0; i < iovcnt && i < 64; i++) {
        *total += iov[i].iov_len;
        if (left == 0) continue;
        out[m].iov_base = iov[i].iov_base;
        out[m].iov_len = iov[i].iov_len < left ? iov[i].iov_len : left;
        left -= out[m].iov_len;
        m++;
    }
    return m;
}

ssize_t readv(int fd, const struct iovec *iov, int iovcnt) {
    char tag = read_plan_for(fd);
    size_t k = 0;
    struct step *st = (tag && iovcnt > 0 && iovcnt <= 64) ? next_step(tag, &k) : NULL;
    if (st) {
        long ret; int err = 0; size_t total = 0;
        struct iovec lim[64];
        if (st->kind == K_CHUNK) {
            int m = cap_iov(iov, iovcnt, (size_t)st->n, lim, &total);
            ret = syscall(SYS_readv, fd, lim, m);
            if (ret < 0) err = errno;
        } else if (st->kind == K_EINTR) { ret = -1; err = EINTR; }
        else { ret = -1; err = (int)st->n; }
        log_io(tag, k, fd, total, ret, err);
        if (ret < 0) errno = err;
        return ret;
    }
    return syscall(SYS_readv, fd, iov, iovcnt);
}

ssize_t write(int fd, const void *buf, size_t count) {
    size_t k = 0;
    struct step *st = (active && fd == 1) ? next_step('W', &k) : NULL;
    if (st) {
        long ret; int err = 0;
        if (st->kind == K_CHUNK) {
            size_t n = count < (size_t)st->n ? count : (size_t)st->n;
            ret = syscall(SYS_write, fd, buf, n);
            if (ret < 0) err = errno;
        } else if (st->kind == K_EINTR) { ret = -1; err = EINTR; }
        else { ret = -1; err = (int)st->n; }
        log_io('W', k, fd, count, ret, err);
        if (ret < 0) errno = err;
        return ret;
    }
    long wr = syscall(SYS_write, fd, buf, count);
    /* engine E3: what a thread printed is visible before whatever it does next (exit, send):
     * the other threads get a turn right here */
    if (active && fd == 1 && wr > 0) e3_after_output();
    return wr;
}

ssize_t writev(int fd, const struct iovec *iov, int iovcnt) {
    size_t k = 0;
    struct step *st = (active && fd == 1 && iovcnt > 0 && iovcnt <= 64) ? next_step('W', &k) : NULL;
    if (st) {
        long ret; int err = 0; size_t total = 0;
        struct iovec lim[64];
        if (st->kind == K_CHUNK) {
            int m = cap_iov(iov, iovcnt, (size_t)st->n, lim, &total);
            ret = syscall(SYS_writev, fd, lim, m);
            if (ret < 0) err = errno;
        } else if (st->kind == K_EINTR) { ret = -1; err = EINTR; }
        else { ret = -1; err = (int)st->n; }
        log_io('W', k, fd, total, ret, err);
        if (ret < 0) errno = err;
        return ret;
    }
    long wr = syscall(SYS_writev, fd, iov, iovcnt);
    if (active && fd == 1 && wr > 0) e3_after_output();
    return wr;
}

/* ===========================================================================================
 * Engine E3: a deterministic scheduler for the REAL binary's REAL threads.
 *
 * Enabled by an "S" line in the plan (S random|sticky|pct|stall|trace <seed> <param> <max_steps> <tail_request_bound> [<horizon>]
 * and, for "trace", C lines with the thread ids to run). Exactly one thread (the token holder) runs
 * user code at any instant; every other thread is parked on its own condition variable inside this
 * shim. The token moves only at intercepted calls, where a seeded PRNG (or the recorded trace) picks
 * the next runnable thread:
 *      pthread_create (after the child is registered), thread start, thread exit, pthread_join,
 *      futex wait / wake as issued by Rust's std through libc's syscall() (Mutex, Condvar, park/unpark,
 *      hence mpsc), sched_yield, nanosleep/clock_nanosleep, getentropy (before and after the fill).
 * Futex wait/wake are implemented here (wait = block in the shim until a shim-level wake on the same
 * address), so "who is runnable" is the simulator's own bookkeeping and never depends on the kernel.
 * Timed waits and sleeps return at once and advance a simulated monotonic clock by the requested
 * duration (clock_gettime is intercepted), so no real time enters the schedule.
 * If no thread is runnable while some thread is blocked the run ends as a deadlock (exit 71).
 *
 * Log: "C <id>" at every decision with more than one runnable thread, "B <id>" thread born,
 *      "F <id> <step>" thread finished, "X <reason> <steps> <hash>" at the end of a controlled run.
 * =========================================================================================== */
#include <dlfcn.h>
#include <pthread.h>
#include <stdarg.h>
#include <time.h>
#include <linux/futex.h>

#define MAXT 160
enum tstate { T_FREE, T_RUNNABLE, T_FUTEX, T_JOIN, T_FINISHED };
struct thr {
    pthread_t pt;
    int state;
    void *addr;
    int join_target;
    pthread_cond_t cv;
    void *(*fn)(void *);
    void *arg;
};
static struct thr T[MAXT];
static int nthr, cur, sched_on;
static pthread_mutex_t G = PTHREAD_MUTEX_INITIALIZER;
static __thread int my_id = -1;
static char s_policy[16];
static unsigned long long s_rng[4];
static long s_param, s_max_steps = 100000, s_tail_bound;
static long s_steps, s_tail_requests;
static int s_trace[MAX_STEPS];
static size_t s_trace_n, s_trace_i;
static unsigned long long s_hash = 0xcbf29ce484222325ULL;
static long long sim_ns;
/* pct: per-thread priorities (higher runs first), up to 8 change points at seeded steps within
 * the horizon where the running thread drops below everyone else. stall: random walk plus up to
 * 8 long preemptions (a seeded thread is frozen for a seeded number of decisions while others can run). */
static long s_prio[MAXT];
static long s_horizon = 256, s_change[8], s_nchange, s_low = 1000;
static long s_stall_at[8], s_stall_len[8], s_nstall, s_frozen = -1, s_frozen_until;

static long raw6(long n, long a, long b, long c, long d, long e, long f) {
    long ret;
    register long r10 __asm__("r10") = d;
    register long r8 __asm__("r8") = e;
    register long r9 __asm__("r9") = f;
    __asm__ volatile("syscall" : "=a"(ret) : "a"(n), "D"(a), "S"(b), "d"(c), "r"(r10), "r"(r8), "r"(r9) : "rcx", "r11", "memory");
    return ret;
}

static unsigned long long sm64(unsigned long long *x) {
    unsigned long long z = (*x += 0x9E3779B97F4A7C15ULL);
    z = (z ^ (z >> 30)) * 0xBF58476D1CE4E5B9ULL;
    z = (z ^ (z >> 27)) * 0x94D049BB133111EBULL;
    return z ^ (z >> 31);
}
static unsigned long long rotl(unsigned long long x, int k) { return (x << k) | (x >> (64 - k)); }
static unsigned long long rng_next(void) {
    unsigned long long *s = s_rng;
    unsigned long long result = rotl(s[1] * 5, 7) * 9, t = s[1] << 17;
    s[2] ^= s[0]; s[3] ^= s[1]; s[1] ^= s[2]; s[0] ^= s[3]; s[2] ^= t; s[3] = rotl(s[3], 45);
    return result;
}
static void hash_byte(unsigned char b) { s_hash ^= b; s_hash *= 0x100000001B3ULL; }

static void e3_log2(const char *tag, long a, long b) {
    char line[96]; char *p = line;
    while (*tag) *p++ = *tag++;
    *p++ = ' '; p = fmt_long(p, a);
    if (b >= 0) { *p++ = ' '; p = fmt_long(p, b); }
    *p++ = '\n';
    if (log_fd >= 0) raw6(SYS_write, log_fd, (long)line, p - line, 0, 0, 0);
}

static void e3_end(const char *reason, int code) {
    char line[128]; char *p = line;
    *p++ = 'X'; *p++ = ' ';
    while (*reason) *p++ = *reason++;
    *p++ = ' '; p = fmt_long(p, s_steps); *p++ = ' ';
    p = fmt_hex(p, (unsigned char *)&s_hash, 8); *p++ = '\n';
    if (log_fd >= 0) raw6(SYS_write, log_fd, (long)line, p - line, 0, 0, 0);
    if (code >= 0) raw6(SYS_exit_group, code, 0, 0, 0, 0, 0);
}

static void e3_parse(const char *rest) {
    /* S <policy> <seed> <param> <max_steps> <tail_bound> */
    size_t i = 0;
    while (rest[i] && rest[i] != ' ' && i < sizeof s_policy - 1) { s_policy[i] = rest[i]; i++; }
    s_policy[i] = 0;
    char *end;
    unsigned long long seed = strtoull(rest + i, &end, 10);
    s_param = strtol(end, &end, 10);
    long ms = strtol(end, &end, 10);
    if (ms > 0) s_max_steps = ms;
    s_tail_bound = strtol(end, &end, 10);
    long hz = strtol(end, &end, 10);
    if (hz > 0) s_horizon = hz;
    for (int k = 0; k < 4; k++) s_rng[k] = sm64(&seed);
    if (!strcmp(s_policy, "pct")) {
        s_nchange = s_param > 8 ? 8 : s_param;
        for (int k = 0; k < s_nchange; k++) s_change[k] = 1 + (long)(rng_next() % (unsigned long)s_horizon);
        s_prio[0] = 2000 + (long)(rng_next() & 0xffffff);
    } else if (!strcmp(s_policy, "stall")) {
        s_nstall = s_param > 8 ? 8 : s_param;
        for (int k = 0; k < s_nstall; k++) {
            s_stall_at[k] = 1 + (long)(rng_next() % (unsigned long)s_horizon);
            s_stall_len[k] = 4 + (long)(rng_next() % (rng_next() % 2 ? 40 : 2000));
        }
    }
    sched_on = 1;
}

/* must hold G. yielding: the caller asked to be descheduled (sched_yield, sleep, timed wait) */
static int pick_next(int yielding) {
    int ids[MAXT], n = 0;
    for (int i = 0; i < nthr; i++) if (T[i].state == T_RUNNABLE) ids[n++] = i;
    if (n == 0) return -1;
    if (++s_steps > s_max_steps) e3_end("budget", 72);
    int cur_ok = cur >= 0 && cur < nthr && T[cur].state == T_RUNNABLE;
    int chosen;
    if (n == 1) chosen = ids[0];
    else {
        if (!strcmp(s_policy, "trace")) {
            int want = s_trace_i < s_trace_n ? s_trace[s_trace_i] : -1;
            s_trace_i++;
            chosen = -1;
            for (int i = 0; i < n; i++) if (ids[i] == want) chosen = want;
            if (chosen < 0) chosen = cur_ok ? cur : ids[0];
        } else if (!strcmp(s_policy, "sticky") && cur_ok && !yielding && (long)(rng_next() % 256) < s_param) {
            chosen = cur;
        } else if (!strcmp(s_policy, "pct")) {
            /* a change point, and an explicit yield (a poller must not starve everyone), demote the running thread */
            int demote = yielding;
            for (int k = 0; k < s_nchange; k++) if (s_change[k] == s_steps) demote = 1;
            if (demote && cur_ok) s_prio[cur] = --s_low; /* signed: demotions never run out */
            chosen = ids[0];
            for (int i = 1; i < n; i++) if (s_prio[ids[i]] > s_prio[chosen]) chosen = ids[i];
        } else if (!strcmp(s_policy, "stall")) {
            for (int k = 0; k < s_nstall; k++)
                if (s_stall_at[k] == s_steps && cur_ok) { s_frozen = cur; s_frozen_until = s_steps + s_stall_len[k]; }
            if (s_frozen >= 0 && s_steps >= s_frozen_until) s_frozen = -1;
            int m = 0, ids2[MAXT];
            for (int i = 0; i < n; i++) if (ids[i] != s_frozen) ids2[m++] = ids[i];
            chosen = m > 0 ? ids2[rng_next() % (unsigned)m] : ids[0];
        } else {
            chosen = ids[rng_next() % (unsigned)n];
        }
        e3_log2("C", chosen, -1);
    }
    for (int i = 0; i < n; i++) hash_byte((unsigned char)ids[i]);
    hash_byte(0xfe); hash_byte((unsigned char)chosen);
    return chosen;
}

/* must hold G; returns holding G with the token */
static void switch_to(int next) {
    int me = my_id;
    cur = next;
    if (next != me) {
        pthread_cond_signal(&T[next].cv);
        while (cur != me || T[me].state != T_RUNNABLE) pthread_cond_wait(&T[me].cv, &G);
    }
}

static void deadlock_exit(void) {
    char line[256]; char *p = line;
    memcpy(p, "D blocked", 9); p += 9;
    for (int i = 0; i < nthr; i++)
        if (T[i].state == T_FUTEX || T[i].state == T_JOIN) { *p++ = ' '; p = fmt_long(p, i); }
    *p++ = '\n';
    if (log_fd >= 0) raw6(SYS_write, log_fd, (long)line, p - line, 0, 0, 0);
    e3_end("deadlock", 71);
}

static int e3_controlled(void) { return sched_on && my_id >= 0 && T[my_id].state != T_FINISHED; }

static void sched_point(int yielding) {
    pthread_mutex_lock(&G);
    int next = pick_next(yielding);
    if (next < 0) deadlock_exit();
    switch_to(next);
    pthread_mutex_unlock(&G);
}

static void block_on(int state, void *addr, int target) {
    /* G held */
    int me = my_id;
    T[me].state = state; T[me].addr = addr; T[me].join_target = target;
    int next = pick_next(0);
    if (next < 0) deadlock_exit();
    switch_to(next);
}

static void *e3_tramp(void *p) {
    struct thr *t = p;
    my_id = (int)(t - T);
    pthread_mutex_lock(&G);
    while (cur != my_id) pthread_cond_wait(&t->cv, &G);
    pthread_mutex_unlock(&G);
    void *r = t->fn(t->arg);
    pthread_mutex_lock(&G);
    t->state = T_FINISHED;
    e3_log2("F", my_id, s_steps);
    for (int i = 0; i < nthr; i++)
        if (T[i].state == T_JOIN && T[i].join_target == my_id) T[i].state = T_RUNNABLE;
    int next = pick_next(0);
    if (next < 0) {
        int blocked = 0;
        for (int i = 0; i < nthr; i++) if (T[i].state == T_FUTEX || T[i].state == T_JOIN) blocked = 1;
        if (blocked) deadlock_exit();
    } else {
        cur = next;
        pthread_cond_signal(&T[next].cv);
    }
    pthread_mutex_unlock(&G);
    return r;
}

int pthread_create(pthread_t *thread, const pthread_attr_t *attr, void *(*fn)(void *), void *arg) {
    static int (*real)(pthread_t *, const pthread_attr_t *, void *(*)(void *), void *);
    if (!real) real = dlsym(RTLD_NEXT, "pthread_create");
    if (!e3_controlled()) return real(thread, attr, fn, arg);
    pthread_mutex_lock(&G);
    if (nthr >= MAXT) { pthread_mutex_unlock(&G); errno = EAGAIN; return EAGAIN; }
    int id = nthr++;
    T[id].state = T_RUNNABLE; T[id].fn = fn; T[id].arg = arg;
    if (!strcmp(s_policy, "pct")) s_prio[id] = 2000 + (long)(rng_next() & 0xffffff);
    pthread_cond_init(&T[id].cv, NULL);
    e3_log2("B", id, -1);
    pthread_mutex_unlock(&G);
    int rc = real(thread, attr, e3_tramp, &T[id]);
    pthread_mutex_lock(&G);
    if (rc != 0) T[id].state = T_FINISHED; else T[id].pt = *thread;
    pthread_mutex_unlock(&G);
    sched_point(0);
    return rc;
}

int pthread_join(pthread_t pt, void **ret) {
    static int (*real)(pthread_t, void **);
    if (!real) real = dlsym(RTLD_NEXT, "pthread_join");
    if (e3_controlled()) {
        pthread_mutex_lock(&G);
        int id = -1;
        for (int i = 1; i < nthr; i++) if (T[i].state != T_FREE && pthread_equal(T[i].pt, pt)) id = i;
        if (id >= 0 && T[id].state != T_FINISHED) block_on(T_JOIN, NULL, id);
        pthread_mutex_unlock(&G);
        if (id >= 0) sched_point(0);
    }
    return real(pt, ret);
}

static long e3_futex(int *uaddr, int op, int val, const struct timespec *timeout) {
    int cmd = op & 127 & ~FUTEX_CLOCK_REALTIME;
    if (cmd == FUTEX_WAIT || cmd == FUTEX_WAIT_BITSET) {
        pthread_mutex_lock(&G);
        if (__atomic_load_n(uaddr, __ATOMIC_SEQ_CST) != val) { pthread_mutex_unlock(&G); errno = EAGAIN; return -1; }
        if (timeout) {
            /* timed wait: the timer fires (simulated clock jumps), after the others had a turn */
            if (cmd == FUTEX_WAIT) sim_ns += timeout->tv_sec * 1000000000LL + timeout->tv_nsec;
            else {
                long long abs_ns = timeout->tv_sec * 1000000000LL + timeout->tv_nsec;
                struct timespec now; clock_gettime((op & FUTEX_CLOCK_REALTIME) ? CLOCK_REALTIME : CLOCK_MONOTONIC, &now);
                long long now_ns = now.tv_sec * 1000000000LL + now.tv_nsec;
                if (abs_ns > now_ns) sim_ns += abs_ns - now_ns;
            }
            int next = pick_next(1);
            if (next < 0) deadlock_exit();
            switch_to(next);
            pthread_mutex_unlock(&G);
            errno = ETIMEDOUT;
            return -1;
        }
        block_on(T_FUTEX, uaddr, -1);
        pthread_mutex_unlock(&G);
        return 0;
    }
    if (cmd == FUTEX_WAKE || cmd == FUTEX_WAKE_BITSET) {
        pthread_mutex_lock(&G);
        int woken = 0;
        for (int i = 0; i < nthr && woken < val; i++)
            if (T[i].state == T_FUTEX && T[i].addr == (void *)uaddr) { T[i].state = T_RUNNABLE; woken++; }
        int next = pick_next(0);
        if (next < 0) deadlock_exit();
        switch_to(next);
        pthread_mutex_unlock(&G);
        return woken;
    }
    return -2; /* not modelled: pass through */
}

long syscall(long number, ...) {
    va_list ap;
    va_start(ap, number);
    long a = va_arg(ap, long), b = va_arg(ap, long), c = va_arg(ap, long), d = va_arg(ap, long), e = va_arg(ap, long), f = va_arg(ap, long);
    va_end(ap);
    if (number == SYS_getrandom && active && !((unsigned)c & (GRND_NONBLOCK | GRND_INSECURE))) {
        return getrandom((void *)a, (size_t)b, (unsigned)c);
    }
    if (number == SYS_futex && e3_controlled()) {
        long r = e3_futex((int *)a, (int)b, (int)c, (const struct timespec *)d);
        if (r != -2) return r;
    }
    long ret = raw6(number, a, b, c, d, e, f);
    if (ret < 0 && ret > -4096) { errno = (int)-ret; return -1; }
    return ret;
}

int sched_yield(void) {
    if (e3_controlled()) { sched_point(1); return 0; }
    return (int)raw6(SYS_sched_yield, 0, 0, 0, 0, 0, 0);
}

int nanosleep(const struct timespec *req, struct timespec *rem) {
    if (e3_controlled()) {
        pthread_mutex_lock(&G);
        if (req) sim_ns += req->tv_sec * 1000000000LL + req->tv_nsec;
        pthread_mutex_unlock(&G);
        sched_point(1);
        if (rem) { rem->tv_sec = 0; rem->tv_nsec = 0; }
        return 0;
    }
    long r = raw6(SYS_nanosleep, (long)req, (long)rem, 0, 0, 0, 0);
    if (r < 0) { errno = (int)-r; return -1; }
    return 0;
}

int clock_nanosleep(clockid_t clk, int flags, const struct timespec *req, struct timespec *rem) {
    if (e3_controlled()) {
        pthread_mutex_lock(&G);
        if (req) {
            long long ns = req->tv_sec * 1000000000LL + req->tv_nsec;
            if (flags & TIMER_ABSTIME) {
                struct timespec now; clock_gettime(clk, &now);
                long long now_ns = now.tv_sec * 1000000000LL + now.tv_nsec;
                if (ns > now_ns) sim_ns += ns - now_ns;
            } else sim_ns += ns;
        }
        pthread_mutex_unlock(&G);
        sched_point(1);
        return 0;
    }
    long r = raw6(SYS_clock_nanosleep, clk, flags, (long)req, (long)rem, 0, 0);
    return r < 0 ? (int)-r : 0;
}

int clock_gettime(clockid_t clk, struct timespec *ts) {
    long r = raw6(SYS_clock_gettime, clk, (long)ts, 0, 0, 0, 0);
    if (r < 0) { errno = (int)-r; return -1; }
    if (sched_on) {
        /* simulated time: a fixed epoch plus what timed waits and sleeps consumed */
        long long ns = 1000000000LL * 1000 + sim_ns;
        ts->tv_sec = ns / 1000000000LL;
        ts->tv_nsec = ns % 1000000000LL;
    }
    return 0;
}

/* called from getentropy() around the device's action */
static void e3_entropy_point(void) { if (e3_controlled()) sched_point(0); }
static void e3_tail_request(void) {
    if (!sched_on || !s_tail_bound) return;
    if (++s_tail_requests > s_tail_bound) e3_end("liveness", 73);
}
__attribute__((destructor)) static void e3_fini(void) {
    /* normal process exit (exit() on some thread): record how far the schedule got */
    if (sched_on) e3_end("exit", -1);
}

static void e3_main_init(void) {
    if (!sched_on) return;
    my_id = 0; nthr = 1; cur = 0;
    T[0].state = T_RUNNABLE; T[0].pt = pthread_self();
    pthread_cond_init(&T[0].cv, NULL);
}

static int e3_tid(void) { return sched_on ? my_id : -1; }
static void e3_trace_add(int id) { if (s_trace_n < MAX_STEPS) s_trace[s_trace_n++] = id; }
static int sched_on_flag(void) { return sched_on; }
static long e3_steps(void) { return s_steps; }

static void e3_after_output(void) { if (e3_controlled()) sched_point(0); }
