#!/usr/bin/env python3
"""Regenerates /verif/MANIFEST.json from the tables below (kept as a script so the
file stays consistent with DESIGN.md as checks are added)."""
import json, subprocess

HOOK_COMMITS = subprocess.run(["git", "-C", "/repo", "log", "--format=%H", "--grep=^verif hook"],
                              capture_output=True, text=True).stdout.split()

NA = {
 "C01": "pure function: Mnemonic::from_phrase/to_phrase are bit-packing over a static word list; no schedule, fault, stream or clock a simulator could vary (DESIGN.md §6)",
 "C02": "pure function: Mnemonic::seed is PBKDF2 of its arguments (DESIGN.md §6)",
 "C03": "pure function: hdk::derive folds HMAC and scalar addition over the path (DESIGN.md §6)",
 "C04": "pure function: key -> public key -> Keccak -> EIP-55 is arithmetic on the input (DESIGN.md §6)",
 "C05": "pure function: RFC 6979 signing consults no entropy and no state (DESIGN.md §6)",
 "C06": "pure function: JSON -> field list -> RLP -> Keccak (DESIGN.md §6)",
 "C07": "pure function: RLP length/integer canonicalisation (DESIGN.md §6)",
 "C08": "pure function: EIP-712 hashing; the randomly keyed HashMap of types is used for look-up only and orders nothing (DESIGN.md §6)",
 "C09": "pure function: range/length/shape validation of typed-data values (DESIGN.md §6)",
 "C10": "pure function: EIP-191 prefixing (DESIGN.md §6)",
 "C11": "pure function of (argv flag, parsed transaction); 'configurations' are command-line inputs, not simulator choices (DESIGN.md §6)",
 "C13": "pure function: permissive number deserialisation (DESIGN.md §6)",
 "C14": "pure function: path parse/print (DESIGN.md §6)",
 "C15": "pure functions composed: signature print/parse and sign->hash; the 'history' has no interleaving, fault or shared state (DESIGN.md §6)",
 "C20": "pure function: the domain-type scan (DESIGN.md §6)",
}

PENDING = {}

def check(pid, level_cat, level_text, design_ref, note, technique, engine):
    return {
        "property_id": pid,
        "quick_cmd": f"/verif/bin/check {pid} quick",
        "thorough_cmd": f"/verif/bin/check {pid} thorough",
        "evidence_file": f"/verif/evidence/{pid}.json",
        "replay_cmd_template": f"/verif/bin/check {pid} --replay {{path}}",
        "engine": engine,
        "level_claimed": {"category": level_cat, "text": level_text, "design_ref": design_ref},
        "level_note": note,
        "technique": technique,
    }

CHECKS = []
import importlib.util, os
spec = importlib.util.spec_from_file_location("manifest_checks", "/verif/manifest_checks.py")
m = importlib.util.module_from_spec(spec); spec.loader.exec_module(m)
CHECKS = [check(*c) for c in m.CHECKS]
PENDING = m.PENDING

manifest = {
    "version": 1,
    "setup_cmd": "/verif/bin/setup",
    "hooks": {
        "guard": "--cfg hdwallet_verif",
        "enable": "RUSTFLAGS/--cfg hdwallet_verif is set only in /verif/sim/.cargo/config.toml; the harness crate compiles /repo/src/cmd.rs and /repo/src/cmd/*.rs (symlinked) with it, so `std` in cmd/new.rs resolves to the harness facade (shuttle thread/sync). The real binary used by engine E1 is built with the guard OFF.",
        "baseline_off_cmd": "cd /repo && cargo test --workspace --no-fail-fast --offline",
        "source_commits": HOOK_COMMITS,
        "add_only": True,
    },
    "engines": m.ENGINES,
    "checks": CHECKS,
    "not_applicable": [{"property_id": k, "reason": v} for k, v in sorted({**NA, **PENDING}.items())],
    "notes": m.NOTES,
}
json.dump(manifest, open("/verif/MANIFEST.json", "w"), indent=1)
print("wrote MANIFEST.json:", [c["property_id"] for c in CHECKS], "n/a:", len(manifest["not_applicable"]))
